//! The reference model of C11 (own code): where a file is found according to the *documented*
//! rules, and what the program is once every include is pasted in place.
//!
//!   * found: at the path as written (relative to the cwd, or absolute), in the directory of the
//!     including file, in a caller-supplied directory, in a directory of an earlier
//!     `.includepath` (a relative one resolved against the file containing the directive);
//!   * pasting: the lines of the file in place of the directive, `.exit` ending only the file
//!     it is in, `.includepath` lines blanked (they produce nothing).
//!
//! Paths are scratch-relative ("proj/src/f1.inc"); "$R/x" is the absolute spelling of "x".
//! Lexical normalisation is exact as long as no ".." steps through a directory that does not
//! exist (such spellings are not generated) or through a symbolic link to a directory. The only
//! directory links on the simulated disk are the aliases of `World::links` (link -> directory it
//! points to); `join_norm_l` resolves them the way the kernel does - the moment the component is
//! walked, so that a following ".." leaves the *target* - and its results are physical paths.

use std::collections::BTreeMap;

pub fn parse_include(line: &str) -> Option<String> {
    let t = line.trim_start();
    let rest = t.strip_prefix(".include")?;
    if !rest.starts_with(' ') && !rest.starts_with('\t') {
        return None; // .includepath
    }
    let rest = rest.trim_start();
    let rest = rest.strip_prefix('"')?;
    let end = rest.find('"')?;
    Some(rest[..end].to_string())
}

pub fn parse_includepath(line: &str) -> Option<String> {
    let t = line.trim_start();
    let rest = t.strip_prefix(".includepath")?;
    let rest = rest.trim_start();
    let rest = rest.strip_prefix('"')?;
    let end = rest.find('"')?;
    Some(rest[..end].to_string())
}

pub fn basename(p: &str) -> &str {
    p.rsplit('/').next().unwrap_or(p)
}

pub fn dirname(p: &str) -> &str {
    match p.rfind('/') {
        Some(i) => &p[..i],
        None => "",
    }
}

/// Join `rel` onto the scratch-relative directory `dir` and normalise; None = leaves the root.
/// "$R/..." is absolute (scratch root); any other absolute path is outside the model.
pub fn join_norm(dir: &str, rel: &str) -> Option<String> {
    join_norm_l(dir, rel, &BTreeMap::new())
}

/// `join_norm` on a disk with directory links (link path -> target directory, both physical and
/// scratch-relative; targets contain no links themselves). `dir` is a physical path.
pub fn join_norm_l(dir: &str, rel: &str, links: &BTreeMap<String, String>) -> Option<String> {
    let (mut parts, rest): (Vec<String>, &str) = if let Some(r) = rel.strip_prefix("$R") {
        (vec![], r)
    } else if rel.starts_with('/') {
        return None;
    } else {
        (dir.split('/').filter(|s| !s.is_empty()).map(|s| s.to_string()).collect(), rel)
    };
    for c in rest.split('/') {
        match c {
            "" | "." => {}
            ".." => {
                parts.pop()?;
            }
            x => {
                parts.push(x.to_string());
                if !links.is_empty() {
                    if let Some(t) = links.get(&parts.join("/")) {
                        parts = t.split('/').filter(|s| !s.is_empty()).map(|s| s.to_string()).collect();
                    }
                }
            }
        }
    }
    Some(parts.join("/"))
}

#[derive(Clone, Debug, Default)]
pub struct Flat {
    pub text: String,
    /// flat line index -> (file, 1-based line in that file)
    pub map: Vec<(String, usize)>,
    /// includes (as written) that exist on the disk but in no documented place: the tool may
    /// find them (it searches more places than documented) or fail naming them
    pub undocumented: Vec<String>,
    /// includes (as written) for which no file exists at all: a marker line fails the pasted
    /// build exactly when the directive is reached
    pub unresolvable: Vec<String>,
    /// (including file, child file, include as written) in paste order
    pub resolved: Vec<(String, String, String)>,
    /// includes (as written) for which more than one file qualifies (several documented places,
    /// or a documented place and the directory of an ancestor, which the tool also searches):
    /// the statement does not say which one wins, the scenario is not judged
    pub ambiguous: Vec<String>,
}

pub const MARKER: &str = "include found nowhere: ";

pub struct World<'a> {
    /// files present on the disk (scratch-relative path -> text)
    pub files: &'a BTreeMap<String, String>,
    pub cwd: &'a str,
    /// caller-supplied directories, as given to build_file ("$R/..." or relative to the cwd)
    pub caller: &'a [String],
    /// directory aliases on the disk: link path -> directory it points to
    pub links: &'a BTreeMap<String, String>,
}

impl<'a> World<'a> {
    pub fn join(&self, dir: &str, rel: &str) -> Option<String> {
        join_norm_l(dir, rel, self.links)
    }
    fn exists(&self, p: &str) -> bool {
        self.files.contains_key(p)
    }
    /// every existing file that the name could mean: documented places plus `extra` directories
    fn all_candidates(&self, fdir: &str, ipaths: &[String], extra: &[String], name: &str) -> Vec<String> {
        let mut cands: Vec<Option<String>> = vec![self.join(self.cwd, name)];
        if !name.starts_with("$R") && !name.starts_with('/') {
            cands.push(self.join(fdir, name));
            for c in self.caller {
                if let Some(d) = self.join(self.cwd, c) {
                    cands.push(self.join(&d, name));
                }
            }
            for d in ipaths.iter().chain(extra.iter()) {
                cands.push(self.join(d, name));
            }
        }
        let mut v: Vec<String> = cands.into_iter().flatten().filter(|c| self.exists(c)).collect();
        v.sort();
        v.dedup();
        v
    }
    /// documented lookup of `name` from a file in directory `fdir` with `ipaths` in scope
    fn find_documented(&self, fdir: &str, ipaths: &[String], name: &str) -> Option<String> {
        let mut cands: Vec<Option<String>> = vec![];
        cands.push(self.join(self.cwd, name)); // the path as written
        if !name.starts_with("$R") && !name.starts_with('/') {
            cands.push(self.join(fdir, name)); // directory of the including file
            for c in self.caller {
                if let Some(d) = self.join(self.cwd, c) {
                    cands.push(self.join(&d, name));
                }
            }
            for d in ipaths {
                cands.push(self.join(d, name));
            }
        }
        cands.into_iter().flatten().find(|c| self.exists(c))
    }
    fn find_anywhere(&self, name: &str) -> Option<String> {
        let b = basename(name);
        let mut it = self.files.keys().filter(|k| basename(k) == b);
        let first = it.next()?.clone();
        if it.next().is_some() {
            return None; // ambiguous: leave it unresolved
        }
        Some(first)
    }
}

/// Paste the tree rooted at `main_file`.
pub fn paste(w: &World, main_file: &str) -> Result<Flat, String> {
    let mut flat = Flat::default();
    let mut out: Vec<String> = vec![];
    // `possible`: every .includepath directory textually before this point in this file or an
    // ancestor, whether or not its conditional branch is taken - used only to recognise
    // ambiguity conservatively (the model does not evaluate conditions)
    fn go(w: &World, file: &str, inherited: &[String], possible: &[String], anc_dirs: &[String], flat: &mut Flat, out: &mut Vec<String>, depth: usize) -> Result<(), String> {
        if depth > 80 {
            return Err("model: include depth".into());
        }
        let text = w.files.get(file).ok_or_else(|| format!("model: no file {}", file))?;
        let fdir = dirname(file).to_string();
        // .includepath directives in scope: (directory, branch stack at the directive)
        let mut local: Vec<(String, Vec<u32>)> = vec![];
        let mut possible: Vec<String> = possible.to_vec();
        let mut stack: Vec<u32> = vec![];
        let mut next_id = 1u32;
        let all_lines: Vec<&str> = text.lines().collect();
        // an include guard `.ifdef X` / `.exit` / `.endif` at the top level of a file: "the rest of
        // this file unless X is defined" is, pasted, `.ifndef X` / rest / `.endif`
        let mut guard_open = false;
        let mut skip_to = 0usize;
        let mut last_line = 0usize;
        for (i, line) in all_lines.iter().copied().enumerate() {
            if i < skip_to {
                continue;
            }
            last_line = i + 1;
            let t = line.trim();
            if t == ".exit" && stack.is_empty() {
                break; // ends this file only
            }
            if t == ".exit" {
                // `.exit` inside a conditional in any other shape: pasting has no equivalent the
                // model knows how to write down - the scenario is not judged
                flat.ambiguous.push(format!("{}: .exit inside a conditional", file));
            }
            if stack.is_empty() && !guard_open && i + 2 < all_lines.len() && all_lines[i + 1].trim() == ".exit" && all_lines[i + 2].trim() == ".endif" {
                if let Some(sym) = t.strip_prefix(".ifdef ") {
                    out.push(format!(".ifndef {}", sym.trim()));
                    flat.map.push((file.to_string(), i + 1));
                    for k in 1..3 {
                        out.push(String::new());
                        flat.map.push((file.to_string(), i + 1 + k));
                    }
                    guard_open = true;
                    skip_to = i + 3;
                    last_line = i + 3;
                    continue;
                }
            }
            if t.starts_with(".if") || t.starts_with("#if") {
                stack.push(next_id);
                next_id += 1;
            } else if t.starts_with(".else") || t.starts_with(".elif") || t.starts_with("#else") || t.starts_with("#elif") {
                if let Some(top) = stack.last_mut() {
                    *top = next_id;
                    next_id += 1;
                }
            } else if t.starts_with(".endif") || t.starts_with("#endif") {
                stack.pop();
            }
            if let Some(arg) = parse_includepath(line) {
                if let Some(d) = w.join(&fdir, &arg) {
                    possible.push(d.clone());
                    local.push((d, stack.clone()));
                }
                out.push(String::new());
                flat.map.push((file.to_string(), i + 1));
                continue;
            }
            if let Some(name) = parse_include(line) {
                // in scope: inherited ones, and local ones whose branch stack encloses this line
                let mut scope: Vec<String> = inherited.to_vec();
                for (d, st) in &local {
                    if st.len() <= stack.len() && st[..] == stack[..st.len()] {
                        scope.push(d.clone());
                    }
                }
                if w.all_candidates(&fdir, &possible, anc_dirs, &name).len() > 1 {
                    flat.ambiguous.push(name.clone());
                }
                let target = match w.find_documented(&fdir, &scope, &name) {
                    Some(t) => Some(t),
                    None => match w.find_anywhere(&name) {
                        None if w.files.keys().filter(|k| basename(k) == basename(&name)).count() > 1 => {
                            flat.ambiguous.push(name.clone());
                            None
                        }
                        Some(t) => {
                            flat.undocumented.push(name.clone());
                            Some(t)
                        }
                        None => None,
                    },
                };
                match target {
                    Some(t) => {
                        flat.resolved.push((file.to_string(), t.clone(), name.clone()));
                        let mut anc2 = anc_dirs.to_vec();
                        anc2.push(fdir.clone());
                        go(w, &t, &scope, &possible, &anc2, flat, out, depth + 1)?;
                    }
                    None => {
                        flat.unresolvable.push(name.clone());
                        out.push(format!(".error \"{}{}\"", MARKER, name.replace('"', "'")));
                        flat.map.push((file.to_string(), i + 1));
                    }
                }
                continue;
            }
            out.push(line.to_string());
            flat.map.push((file.to_string(), i + 1));
        }
        if guard_open {
            out.push(".endif".to_string());
            flat.map.push((file.to_string(), last_line.max(1)));
        }
        Ok(())
    }
    go(w, main_file, &[], &[], &[], &mut flat, &mut out, 0)?;
    flat.text = out.join("\n");
    flat.text.push('\n');
    Ok(flat)
}

#[cfg(test)]
mod tests {
    use super::*;
    #[test]
    fn norm() {
        assert_eq!(join_norm("a/b", "../c/./d"), Some("a/c/d".into()));
        assert_eq!(join_norm("a", "../../c"), None);
        assert_eq!(join_norm("a/b", "$R/x y/z"), Some("x y/z".into()));
        assert_eq!(join_norm("", "f"), Some("f".into()));
        let mut l = BTreeMap::new();
        l.insert("links/l0/deep/L0".to_string(), "a/b/zzq0".to_string());
        assert_eq!(join_norm_l("x", "$R/links/l0/deep/L0/../C/f.inc", &l), Some("a/b/C/f.inc".into()));
        assert_eq!(join_norm_l("links/l0", "deep/L0/../C", &l), Some("a/b/C".into()));
        assert_eq!(join_norm_l("links/l0", "deep/L0x/../C", &l), Some("links/l0/deep/C".into()));
    }
    #[test]
    fn include_guard() {
        let mut files = BTreeMap::new();
        files.insert("m.asm".to_string(), ".include \"g.inc\"\n nop\n.include \"g.inc\"\n".to_string());
        files.insert("g.inc".to_string(), ".ifdef G\n.exit\n.endif\n.define G\n inc r4\n".to_string());
        let nl = BTreeMap::new();
        let w = World { files: &files, cwd: "", caller: &[], links: &nl };
        let f = paste(&w, "m.asm").unwrap();
        assert_eq!(f.text, ".ifndef G\n\n\n.define G\n inc r4\n.endif\n nop\n.ifndef G\n\n\n.define G\n inc r4\n.endif\n");
        assert!(f.ambiguous.is_empty());
        files.insert("g.inc".to_string(), ".ifdef G\n nop\n.exit\n.endif\n".to_string());
        let nl = BTreeMap::new();
        let w = World { files: &files, cwd: "", caller: &[], links: &nl };
        assert!(!paste(&w, "m.asm").unwrap().ambiguous.is_empty());
    }
}
