//! simharness - deterministic simulation with fault injection for avra-rs (see /verif/DESIGN.md).
//!
//!   simharness check <C07|C11|C17|C18> <quick|thorough>     run a check (parent: forks workers)
//!   simharness worker <engine> <tier> <seed> <w> <n> <total> <deadline> [digest-only N]
//!   simharness replay <file>                                 re-run a replay file
//!   simharness judge-one                                     scenario JSON on stdin -> verdict JSON
//!   simharness ref-one                                       (multibuild) reference build, stdin -> stdout
//!
//! Exit status: 0 property held on everything explored; 1 violation (a line
//! `VIOLATION property=<id> replay=<path>` is printed); 2 harness error (never a VIOLATION line).

#[path = "../../simlibc/core.rs"]
pub mod simlibc;

mod cli;
mod common;
mod driver;
mod hexio;
mod hexread;
mod incmodel;
mod inctree;
mod multibuild;
mod proggen;
mod rng;
mod sched;

use std::io::Read;

fn usage() -> ! {
    eprintln!("usage: simharness check <C07|C11|C17|C18> <quick|thorough> | replay <file> | worker ... | judge-one | ref-one");
    std::process::exit(2)
}

fn main() {
    let args: Vec<String> = std::env::args().collect();
    if args.len() < 2 {
        usage();
    }
    match args[1].as_str() {
        "check" => {
            if args.len() < 4 {
                usage();
            }
            std::process::exit(driver::check(&args[2], &args[3]));
        }
        "replay" => {
            if args.len() < 3 {
                usage();
            }
            std::process::exit(driver::replay_file(&args[2]));
        }
        "worker" => {
            std::process::exit(driver::worker_main(&args[2..]));
        }
        "judge-one" => {
            let mut s = String::new();
            std::io::stdin().read_to_string(&mut s).unwrap();
            std::process::exit(driver::judge_one(&s));
        }
        "ref-one" => {
            let mut s = String::new();
            std::io::stdin().read_to_string(&mut s).unwrap();
            std::process::exit(multibuild::ref_one(&s));
        }
        "mb-run" => {
            let mut s = String::new();
            std::io::stdin().read_to_string(&mut s).unwrap();
            std::process::exit(multibuild::mb_run(&s));
        }
        "dump-programs" => {
            common::silence_panics();
            multibuild::dump_programs(args.get(2).and_then(|s| s.parse().ok()).unwrap_or(1), args.get(3).and_then(|s| s.parse().ok()).unwrap_or(50));
        }
        _ => usage(),
    }
}
