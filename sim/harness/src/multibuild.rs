//! stub - under construction
use crate::common::*;
use serde_json::Value;
pub const RULE: &str = "";
pub const ASSUMPTIONS: &[&str] = &[];
pub fn worker(_cfg: &WorkerCfg, _emit: &mut dyn FnMut(Violation)) -> Stats { Stats::default() }
pub fn replay(_s: &Value) -> Result<Option<Violation>, String> { Err("not built".into()) }
pub fn shrink(_s: &Value) -> Vec<Value> { vec![] }
pub fn ref_one(_s: &str) -> i32 { 2 }
/// development aid: print generated programs and what they build to
pub fn dump_programs(seed: u64, n: usize) {
    use crate::proggen;
    use crate::rng::Rng;
    let mut r = Rng::new(seed);
    let mut ok = 0;
    let mut by_err: std::collections::BTreeMap<String, usize> = Default::default();
    for i in 0..n {
        let fam = proggen::family(&mut r, 3, "x");
        for p in fam {
            let t = p.text();
            let res = std::panic::catch_unwind(|| avra_lib::builder::build_str(&t));
            let key = match &res {
                Ok(Ok(_)) => {
                    ok += 1;
                    "ok".to_string()
                }
                Ok(Err(e)) => format!("intent={} err={}", p.intent, e.to_string().chars().take(50).collect::<String>()),
                Err(_) => format!("intent={} PANIC", p.intent),
            };
            if i < 2 {
                println!("---- intent={} -> {}\n{}", p.intent, key, t);
            }
            if let Ok(Err(e)) = &res {
                let es = e.to_string();
                if let Some(rest) = es.strip_prefix("failed to parse line: ") {
                    let n: usize = rest.split(' ').next().unwrap().parse().unwrap_or(1);
                    println!("PARSEFAIL: {}", t.lines().nth(n - 1).unwrap_or("?"));
                }
                if es.contains("can not be found") && p.intent == "ok" {
                    println!("NOTFOUND: {}", es);
                }
            }
            let k2: String = key.chars().map(|c| if c.is_ascii_digit() { '#' } else { c }).collect();
            *by_err.entry(k2).or_insert(0) += 1;
        }
    }
    println!("ok={}", ok);
    for (k, v) in by_err {
        println!("{:6} {}", v, k);
    }
}
