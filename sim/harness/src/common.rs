//! Types shared by the engines and the driver: fault rules in replay-file form, violations,
//! per-worker statistics, scratch directories, running a closure as "the simulated process".

use crate::rng::fnv;
use crate::simlibc::{self, Action, Call, Event, Rule, SimState};
use serde::{Deserialize, Serialize};
use serde_json::Value;
use std::collections::{BTreeMap, BTreeSet};
use std::path::{Path, PathBuf};

pub const ERRNOS: &[(&str, i32)] = &[
    ("ENOENT", libc::ENOENT),
    ("EACCES", libc::EACCES),
    ("EROFS", libc::EROFS),
    ("EMFILE", libc::EMFILE),
    ("ENFILE", libc::ENFILE),
    ("ENOSPC", libc::ENOSPC),
    ("EISDIR", libc::EISDIR),
    ("ELOOP", libc::ELOOP),
    ("ENAMETOOLONG", libc::ENAMETOOLONG),
    ("EIO", libc::EIO),
    ("EDQUOT", libc::EDQUOT),
    ("EFBIG", libc::EFBIG),
    ("EINTR", libc::EINTR),
    ("EPIPE", libc::EPIPE),
    ("EAGAIN", libc::EAGAIN),
    ("ENOMEM", libc::ENOMEM),
    ("EBADF", libc::EBADF),
    ("ENOTDIR", libc::ENOTDIR),
    ("ESPIPE", libc::ESPIPE),
];

pub fn errno_name(e: i32) -> String {
    ERRNOS.iter().find(|(_, v)| *v == e).map(|(n, _)| n.to_string()).unwrap_or_else(|| format!("E{}", e))
}
pub fn errno_value(n: &str) -> Option<i32> {
    ERRNOS.iter().find(|(k, _)| *k == n).map(|(_, v)| *v).or_else(|| n.strip_prefix('E').and_then(|d| d.parse().ok()))
}

/// A fault rule as it appears in scenarios and replay files.
#[derive(Serialize, Deserialize, Clone, Debug, PartialEq, Eq)]
pub struct RuleSpec {
    pub call: String,
    pub target: String,
    pub nth: i64,
    #[serde(default = "minus_one")]
    pub tid: i32,
    /// "errno" | "limit" | "shortby" | "zero"
    pub action: String,
    /// errno name for "errno", byte count otherwise
    pub arg: String,
    /// fault-kind label for statistics ("write-fail", "read-short", "vanish", ...)
    pub kind: String,
}
fn minus_one() -> i32 {
    -1
}

impl RuleSpec {
    pub fn errno(call: &str, target: &str, nth: i64, e: &str, kind: &str) -> RuleSpec {
        RuleSpec { call: call.into(), target: target.into(), nth, tid: -1, action: "errno".into(), arg: e.into(), kind: kind.into() }
    }
    pub fn limit(call: &str, target: &str, nth: i64, n: usize, kind: &str) -> RuleSpec {
        RuleSpec { call: call.into(), target: target.into(), nth, tid: -1, action: "limit".into(), arg: n.to_string(), kind: kind.into() }
    }
    pub fn shortby(call: &str, target: &str, nth: i64, n: usize, kind: &str) -> RuleSpec {
        RuleSpec { call: call.into(), target: target.into(), nth, tid: -1, action: "shortby".into(), arg: n.to_string(), kind: kind.into() }
    }
    pub fn zero(call: &str, target: &str, nth: i64, kind: &str) -> RuleSpec {
        RuleSpec { call: call.into(), target: target.into(), nth, tid: -1, action: "zero".into(), arg: "0".into(), kind: kind.into() }
    }
    pub fn to_rule(&self) -> Result<Rule, String> {
        let call = Call::from_name(&self.call).ok_or_else(|| format!("unknown call {}", self.call))?;
        let action = match self.action.as_str() {
            "errno" => Action::Errno(errno_value(&self.arg).ok_or_else(|| format!("unknown errno {}", self.arg))?),
            "limit" => Action::Limit(self.arg.parse().map_err(|_| "bad limit")?),
            "shortby" => Action::ShortBy(self.arg.parse().map_err(|_| "bad shortby")?),
            "zero" => Action::Zero,
            a => return Err(format!("unknown action {}", a)),
        };
        let mut r = Rule::new(call, &self.target, self.nth, action);
        r.tid = self.tid;
        Ok(r)
    }
    /// benign = legal kernel behaviour a correct program must ride through (or fail visibly on)
    pub fn is_benign(&self) -> bool {
        matches!(self.action.as_str(), "limit" | "shortby") || (self.action == "errno" && self.arg == "EINTR")
    }
    pub fn short(&self) -> String {
        format!("{}:{}#{}:{}{}", self.call, self.target, self.nth, self.action, if self.action == "zero" { String::new() } else { format!("={}", self.arg) })
    }
}

pub fn rules_to_sim(rules: &[RuleSpec]) -> Result<Vec<Rule>, String> {
    rules.iter().map(|r| r.to_rule()).collect()
}

#[derive(Serialize, Deserialize, Clone, Debug)]
pub struct EventRec {
    pub seq: u64,
    pub tid: u32,
    pub call: String,
    pub path: String,
    pub req: i64,
    pub ret: i64,
    pub errno: String,
    pub rule: i32,
}

pub fn event_rec(e: &Event) -> EventRec {
    EventRec {
        seq: e.seq,
        tid: e.tid,
        call: e.call.name().to_string(),
        path: e.path.clone(),
        req: e.req,
        ret: e.ret,
        errno: if e.errno == 0 { String::new() } else { errno_name(e.errno) },
        rule: e.rule,
    }
}

/// One line per event, the form hashed for determinism comparisons and shown in replay files.
pub fn event_line(e: &Event) -> String {
    if e.path == "<stderr>" {
        // what a process writes on stderr may contain its own pid / thread id (Rust's panic
        // message does), so the length is not a function of the seed: only success is logged
        return format!("{} t{} {} {} {}{}", e.seq, e.tid, e.call.name(), e.path, if e.ret >= 0 { "ok" } else { "failed" }, if e.rule != -1 { format!(" rule={}", e.rule) } else { String::new() });
    }
    format!(
        "{} t{} {} {} req={} ret={}{}{}",
        e.seq,
        e.tid,
        e.call.name(),
        e.path,
        e.req,
        e.ret,
        if e.errno != 0 { format!(" {}", errno_name(e.errno)) } else { String::new() },
        if e.rule != -1 { format!(" rule={}", e.rule) } else { String::new() }
    )
}

/// Event lines for determinism comparisons (profile prefix, process layouts): every path is
/// replaced by the number of its first occurrence in this trace. What is compared is the
/// structure of the run - which call, on which file of the run, with which sizes and results -
/// not the spelling of names, which code under test may legitimately build from a pid or a
/// process-wide counter (temporary files).
pub fn canon_event_lines(tr: &[Event]) -> Vec<String> {
    let mut ids: BTreeMap<&str, usize> = BTreeMap::new();
    let mut out = Vec::with_capacity(tr.len());
    for e in tr {
        let line = event_line(e);
        if e.path.starts_with('<') {
            out.push(line);
            continue;
        }
        let n = ids.len();
        let id = *ids.entry(e.path.as_str()).or_insert(n);
        out.push(line.replacen(&e.path, &format!("path#{}", id), 1));
    }
    out
}

/// Did the program under test start threads of its own (preload form numbers threads)?
pub fn own_threads(tr: &[Event]) -> bool {
    tr.iter().any(|e| e.tid != 0)
}

pub fn trace_digest(tr: &[Event]) -> u64 {
    if own_threads(tr) {
        // threads of the program itself run unscheduled: the order of their calls is not a
        // function of the seed; compare the multiset of what was done
        let mut v: Vec<String> = tr.iter().map(|e| format!("{} {} {} {}", e.call.name(), if e.path.starts_with('<') { e.path.as_str() } else { "path" }, e.ret.signum(), e.errno)).collect();
        v.sort();
        return fnv(v.join("\n").as_bytes());
    }
    let mut s = String::new();
    for l in canon_event_lines(tr) {
        s.push_str(&l);
        s.push('\n');
    }
    fnv(s.as_bytes())
}

pub fn trace_tail(tr: &[Event], n: usize) -> Vec<String> {
    let start = tr.len().saturating_sub(n);
    tr[start..].iter().map(event_line).collect()
}

#[derive(Serialize, Deserialize, Clone, Debug)]
pub struct Violation {
    pub property: String,
    pub engine: String,
    /// violation class: what kind of thing went wrong (stable under minimisation)
    pub class: String,
    /// coarse signature used to match known findings and to de-duplicate
    pub signature: String,
    pub seed: u64,
    pub expected: String,
    pub observed: Value,
    pub scenario: Value,
}

#[derive(Serialize, Deserialize, Clone, Debug, Default)]
pub struct Stats {
    pub runs: u64,
    pub fault_free_runs: u64,
    pub runs_with_fired_fault: u64,
    pub steps: u64,
    pub fault_kinds_fired: BTreeMap<String, u64>,
    pub probes: BTreeMap<String, u64>,
    pub excluded: BTreeMap<String, u64>,
    pub counters: BTreeMap<String, u64>,
    /// hashes of distinct non-trivial cases
    pub distinct_nontrivial: BTreeSet<u64>,
    /// hashes by the engine's stated "distinct state" measure
    pub distinct_states: BTreeSet<u64>,
    pub samples: Vec<Value>,
    /// run index -> digest of the full event log (determinism self-check)
    pub digests: BTreeMap<u64, u64>,
    /// run index -> digest of the outcomes only (results, files, statuses)
    #[serde(default)]
    pub outcome_digests: BTreeMap<u64, u64>,
    /// oddities that are reported but do not fail the check (see driver)
    #[serde(default)]
    pub warnings: Vec<String>,
    pub first_seed: Option<u64>,
    pub last_seed: Option<u64>,
    pub harness_errors: Vec<String>,
    pub panics_under_fault: u64,
}

impl Stats {
    pub fn probe(&mut self, name: &str, hit: bool) {
        let e = self.probes.entry(name.to_string()).or_insert(0);
        if hit {
            *e += 1;
        }
    }
    pub fn count(&mut self, name: &str, n: u64) {
        *self.counters.entry(name.to_string()).or_insert(0) += n;
    }
    pub fn fired(&mut self, kind: &str) {
        *self.fault_kinds_fired.entry(kind.to_string()).or_insert(0) += 1;
    }
    pub fn exclude(&mut self, why: &str) {
        *self.excluded.entry(why.to_string()).or_insert(0) += 1;
    }
    pub fn merge(&mut self, o: Stats) {
        self.runs += o.runs;
        self.fault_free_runs += o.fault_free_runs;
        self.runs_with_fired_fault += o.runs_with_fired_fault;
        self.steps += o.steps;
        self.panics_under_fault += o.panics_under_fault;
        for (k, v) in o.fault_kinds_fired {
            *self.fault_kinds_fired.entry(k).or_insert(0) += v;
        }
        for (k, v) in o.probes {
            *self.probes.entry(k).or_insert(0) += v;
        }
        for (k, v) in o.excluded {
            *self.excluded.entry(k).or_insert(0) += v;
        }
        for (k, v) in o.counters {
            *self.counters.entry(k).or_insert(0) += v;
        }
        self.distinct_nontrivial.extend(o.distinct_nontrivial);
        self.distinct_states.extend(o.distinct_states);
        for s in o.samples {
            if self.samples.len() < 3 {
                self.samples.push(s);
            }
        }
        self.digests.extend(o.digests);
        self.outcome_digests.extend(o.outcome_digests);
        for w in o.warnings {
            if self.warnings.len() < 20 {
                self.warnings.push(w);
            }
        }
        self.first_seed = match (self.first_seed, o.first_seed) {
            (Some(a), Some(b)) => Some(a.min(b)),
            (a, b) => a.or(b),
        };
        self.last_seed = match (self.last_seed, o.last_seed) {
            (Some(a), Some(b)) => Some(a.max(b)),
            (a, b) => a.or(b),
        };
        self.harness_errors.extend(o.harness_errors);
    }
}

#[derive(Clone, Debug)]
pub struct WorkerCfg {
    pub tier: String,
    pub base_seed: u64,
    pub worker: u64,
    pub nworkers: u64,
    /// global run indices g with g % nworkers == worker and g < total are this worker's
    pub total: u64,
    pub deadline_secs: f64,
    /// only compute digests for the first `digest_runs` global indices and stop (self-check)
    pub digest_only: Option<u64>,
    pub max_violations: usize,
}

// ---------------------------------------------------------------------------------------------
// scratch directory ("the simulated disk")
// ---------------------------------------------------------------------------------------------

pub struct Scratch {
    pub root: PathBuf,
}

pub fn scratch_base() -> PathBuf {
    if let Ok(d) = std::env::var("VERIF_SCRATCH") {
        return PathBuf::from(d);
    }
    let shm = Path::new("/dev/shm");
    if shm.is_dir() {
        let probe = shm.join(format!(".avra-verif-probe-{}", std::process::id()));
        if std::fs::write(&probe, b"x").is_ok() {
            let _ = std::fs::remove_file(&probe);
            return shm.to_path_buf();
        }
    }
    std::env::temp_dir()
}

impl Scratch {
    pub fn new(tag: &str) -> std::io::Result<Scratch> {
        let root = scratch_base().join(format!("avra-verif-{}-{:07}", tag, std::process::id()));
        let _ = std::fs::remove_dir_all(&root);
        std::fs::create_dir_all(&root)?;
        let root = root.canonicalize()?;
        Ok(Scratch { root })
    }
    pub fn path(&self, rel: &str) -> PathBuf {
        self.root.join(rel)
    }
    pub fn root_str(&self) -> String {
        self.root.to_string_lossy().into_owned()
    }
    /// remove everything below the root (the root itself stays)
    pub fn clear(&self) {
        if let Ok(rd) = std::fs::read_dir(&self.root) {
            for e in rd.flatten() {
                let p = e.path();
                if p.is_dir() && !p.is_symlink() {
                    let _ = std::fs::remove_dir_all(&p);
                } else {
                    let _ = std::fs::remove_file(&p);
                }
            }
        }
    }
    pub fn write(&self, rel: &str, bytes: &[u8]) -> std::io::Result<()> {
        let p = self.path(rel);
        if let Some(d) = p.parent() {
            std::fs::create_dir_all(d)?;
        }
        std::fs::write(p, bytes)
    }
}

impl Drop for Scratch {
    fn drop(&mut self) {
        let _ = std::fs::remove_dir_all(&self.root);
    }
}

// ---------------------------------------------------------------------------------------------
// running code under test as simulated thread 0
// ---------------------------------------------------------------------------------------------

pub struct SimRun<T> {
    /// Ok(value) or Err(panic text)
    pub result: Result<T, String>,
    pub state: SimState,
}

pub fn panic_text(p: Box<dyn std::any::Any + Send>) -> String {
    if let Some(s) = p.downcast_ref::<&str>() {
        s.to_string()
    } else if let Some(s) = p.downcast_ref::<String>() {
        s.clone()
    } else {
        "<non-string panic>".to_string()
    }
}

/// Run `f` on a fresh OS thread (fresh thread-locals, fresh hash keys drawn through the
/// simulated getrandom) with `state` installed; returns its value or panic text and the final
/// simulator state (trace, rule counters).
pub fn run_simulated<T: Send + 'static>(state: SimState, f: impl FnOnce() -> T + Send + 'static) -> SimRun<T> {
    simlibc::install(state);
    let h = std::thread::Builder::new()
        .name("sim0".into())
        .stack_size(64 << 20)
        .spawn(move || {
            simlibc::set_active(Some(0));
            let r = std::panic::catch_unwind(std::panic::AssertUnwindSafe(f));
            simlibc::set_active(None);
            r
        })
        .expect("spawn simulated thread");
    let result = match h.join() {
        Ok(Ok(v)) => Ok(v),
        Ok(Err(p)) => Err(panic_text(p)),
        Err(p) => Err(panic_text(p)),
    };
    let state = simlibc::uninstall().expect("simulator state vanished");
    SimRun { result, state }
}

pub fn silence_panics() {
    std::panic::set_hook(Box::new(|_| {}));
}

pub fn fired_kinds(state: &SimState, specs: &[RuleSpec]) -> Vec<(String, u64)> {
    let mut v = vec![];
    for (i, r) in state.rules.iter().enumerate() {
        if r.fired > 0 {
            if let Some(s) = specs.get(i) {
                v.push((s.kind.clone(), r.fired));
            }
        }
    }
    v
}

pub fn now_secs() -> f64 {
    use std::time::{SystemTime, UNIX_EPOCH};
    SystemTime::now().duration_since(UNIX_EPOCH).map(|d| d.as_secs_f64()).unwrap_or(0.0)
}

// ---------------------------------------------------------------------------------------------
// file names that are not UTF-8
// ---------------------------------------------------------------------------------------------
//
// Scenarios are JSON, so their path strings are UTF-8. A character from the private-use range
// U+F800..U+F8FF stands for the single byte 0x00..0xFF when the string becomes a real path: the
// name on the disk is then not valid UTF-8 (a Latin-1 "Ger\xe4te", say). Text *inside* files
// stays UTF-8, so such names occur only where no file has to spell them.

pub fn raw_byte_char(b: u8) -> char {
    char::from_u32(0xF800 + b as u32).unwrap()
}

pub fn has_raw(s: &str) -> bool {
    s.chars().any(|c| ('\u{F800}'..='\u{F8FF}').contains(&c))
}

/// The OS string a scenario string stands for.
pub fn os(s: &str) -> std::ffi::OsString {
    use std::os::unix::ffi::OsStringExt;
    let mut v: Vec<u8> = Vec::with_capacity(s.len());
    for c in s.chars() {
        if ('\u{F800}'..='\u{F8FF}').contains(&c) {
            v.push((c as u32 & 0xFF) as u8);
        } else {
            let mut b = [0u8; 4];
            v.extend_from_slice(c.encode_utf8(&mut b).as_bytes());
        }
    }
    std::ffi::OsString::from_vec(v)
}

pub fn pb(s: &str) -> PathBuf {
    PathBuf::from(os(s))
}

/// What `to_string_lossy` makes of the path a scenario string stands for.
pub fn lossy(s: &str) -> String {
    s.chars().map(|c| if ('\u{F800}'..='\u{F8FF}').contains(&c) { '\u{FFFD}' } else { c }).collect()
}

/// Replace the raw-byte characters by plain letters (a scenario that cannot have such names).
pub fn deraw(s: &str) -> String {
    s.chars().map(|c| if ('\u{F800}'..='\u{F8FF}').contains(&c) { 'a' } else { c }).collect()
}

#[cfg(test)]
mod raw_name_tests {
    use super::*;
    use std::os::unix::ffi::OsStrExt;
    #[test]
    fn raw_bytes() {
        let s = format!("Ger{}t/ü.asm", raw_byte_char(0xE4));
        assert!(has_raw(&s) && !has_raw("Gerät"));
        assert_eq!(os(&s).as_bytes(), b"Ger\xE4t/\xC3\xBC.asm");
        assert_eq!(lossy(&s), "Ger\u{FFFD}t/ü.asm");
        assert_eq!(lossy(&s), pb(&s).to_string_lossy());
        assert_eq!(deraw(&s), "Gerat/ü.asm");
        assert_eq!(os(&raw_byte_char(0xFF).to_string()).as_bytes(), b"\xFF");
    }
}
