//! Engine `cli` (C18): the real avra-rs binary as one simulated process (DESIGN.md 5.4).
//!
//! System: the binary built from the tree with the guard off, one process per run, simlibc
//! preloaded, cwd / XDG_CONFIG_HOME / argv / pre-existing files chosen by the scenario.
//! Reference: avra_lib::builder::build_file of the same tree, in-process, fault-free.
//! Oracle: exit status, stdout+stderr, diff of the scratch tree against a snapshot, trace.

use crate::common::*;
use crate::hexread;
use crate::proggen;
use crate::rng::{fnv, mix, Rng};
use crate::simlibc::{self, Call, Event};
use serde::{Deserialize, Serialize};
use serde_json::{json, Value};
use std::collections::{BTreeMap, BTreeSet};
use std::io::Read;
use std::os::unix::process::CommandExt;
use std::path::{Component, Path, PathBuf};
use std::process::{Command, Stdio};

pub const RULE: &str = "Scenario g is drawn from seed mix(VERIF_SEED, g): a source class (generated program that builds or fails at a chosen stage, with/without EEPROM data; empty; comments only; EEPROM only; missing source; a shipped part file through the installed standard include directory; a local include; flash image crossing one or more 64 KiB boundaries) x a source path form (bare, ./, sub-directory with cwd elsewhere, absolute; stems with several dots, no extension, a space, non-ASCII) x options (-o/-e relative, absolute, other directory, long and = forms, -v) x pre-existing files (longer stale outputs at the default and -o/-e paths, unrelated neighbours) x output locations (normal, missing directory, a directory, /dev/full). A fault-free profile run of the binary gives the sequence of libc calls it makes on sources, includes, outputs and stdout; faulted configurations place one fault (quick: one or two, seeded; thorough: additionally every call x every applicable fault kind for a share of the scenarios) inside that sequence, or set RLIMIT_FSIZE = n, or close stdout / point it at /dev/full. Non-trivial: a fault fired or a real output-location failure happened, or (fault-free) the run wrote at least one output or failed a build; distinct by (source class, option set, pre-state, fired-rule list, exit status).";

pub const ASSUMPTIONS: &[&str] = &[
    "for an empty image a stale file removed from its own output path is as right as no file; when -o names the default EEPROM path of a source without EEPROM data the path is judged as the flash output (both images non-empty on one path: not judged)",
    "a configuration knob the tool reads from the environment (a name outside HOME, XDG_*, RUST*, TMP*, PATH, LANG, LC_*, TERM, LD_* ...) is set to menu values in an extra run and judged like a benign fault: outputs exactly right, or a visible failure; a lying input size (size-lie) likewise",
    "the reference is the tree's own library (build_file with the standard include directory), as the property defines the expected images",
    "the independent HEX reader (hexread.rs) decides what a file decodes to",
    "lenient readings where the statement is silent: an empty image may be skipped or written as an empty file; exit status on success is recorded, not demanded; after a failed write a partial file may remain at the faulted path",
    "-o, -e and the source are three different paths; names that are not valid UTF-8 are generated for directories, explicit outputs and the source itself (a raw byte is carried as U+F800+byte in scenario files; traces and snapshots show such names as to_string_lossy does and judging is done on that spelling)",
    "an output on which nothing failed is untouched or exactly right when another output failed (a tool that stops at the first failed output is accepted); the tool is compared with the library reading the same installed include files",
    "LD_PRELOAD interposition reaches every libc call of the binary's Rust std (verified by the profile trace: source, includes, both outputs and stdout all appear)",
];

#[derive(Serialize, Deserialize, Clone, Debug)]
pub struct Scenario {
    pub engine: String,
    /// path relative to the scratch root -> text
    pub files: BTreeMap<String, String>,
    /// path -> size of a stale file of STALE bytes (not valid HEX)
    pub stale: BTreeMap<String, usize>,
    pub dirs: Vec<String>,
    pub cwd: String,
    /// "$R" stands for the scratch root
    pub argv: Vec<String>,
    pub rules: Vec<RuleSpec>,
    pub read_cap: usize,
    pub write_cap: usize,
    pub fsize_limit: Option<u64>,
    /// "pipe" | "closed" | "devfull"
    pub stdout: String,
    pub hash_seed: u64,
    pub source_class: String,
    pub config: String,
    /// (file, byte offset): byte replaced by 0xFF on the disk (a source that is not UTF-8)
    #[serde(default)]
    pub flip: Option<(String, usize)>,
    /// where the standard include directory comes from: "xdg" (XDG_CONFIG_HOME), "home"
    /// (only HOME, with .config below it), "none" (neither variable)
    #[serde(default = "xdg_default")]
    pub envmode: String,
    /// a configuration knob the tool was seen to read from the environment (a name outside the
    /// usual ones, recorded by the seam) set to this value: outputs exactly right, or a visible
    /// failure - judged like a benign fault
    #[serde(default)]
    pub knob: Option<(String, String)>,
    /// paths that are symbolic links on the disk: link (a key of `files`) -> where the bytes live
    #[serde(default)]
    pub symlinks: BTreeMap<String, String>,
    /// files a user has put into the standard include directory next to the shipped ones
    /// (name -> text); with envmode "home-extra" the tool and the reference see a private copy
    /// of the standard include directory that holds them
    #[serde(default)]
    pub config_files: BTreeMap<String, String>,
    /// outputs an earlier run left that are (nearly) right: path -> text of a HEX file that
    /// decodes to the image, lacks its end-of-file record, or stops at a record boundary
    #[serde(default)]
    pub stale_text: BTreeMap<String, String>,
}
fn xdg_default() -> String {
    "xdg".into()
}

// ---------------------------------------------------------------------------------------------
// documented behaviour: where the outputs go
// ---------------------------------------------------------------------------------------------

#[derive(Debug, Clone, Default)]
pub struct Parsed {
    pub source: Option<String>,
    pub output: Option<String>,
    pub eeprom: Option<String>,
    pub verbose: bool,
    /// a token that is neither a known option nor the value of one
    pub unknown: bool,
}

pub fn parse_argv(argv: &[String]) -> Parsed {
    let mut p = Parsed::default();
    let mut i = 0;
    while i < argv.len() {
        let a = &argv[i];
        let mut take = |slot: &mut Option<String>, inline: Option<&str>, i: &mut usize| {
            if let Some(v) = inline {
                *slot = Some(v.to_string());
            } else if *i + 1 < argv.len() {
                *slot = Some(argv[*i + 1].clone());
                *i += 1;
            }
        };
        if a == "-s" || a == "--source" {
            take(&mut p.source, None, &mut i);
        } else if let Some(v) = a.strip_prefix("--source=") {
            take(&mut p.source, Some(v), &mut i);
        } else if a == "-o" || a == "--output" {
            take(&mut p.output, None, &mut i);
        } else if let Some(v) = a.strip_prefix("--output=") {
            take(&mut p.output, Some(v), &mut i);
        } else if a == "-e" || a == "--eeprom" {
            take(&mut p.eeprom, None, &mut i);
        } else if let Some(v) = a.strip_prefix("--eeprom=") {
            take(&mut p.eeprom, Some(v), &mut i);
        } else if a == "-v" || a == "--verbosity" {
            p.verbose = true;
        } else {
            p.unknown = true;
        }
        i += 1;
    }
    p
}

/// lexical normalisation of an absolute path ("." and ".." resolved; no symlinks in the scratch tree)
fn normalise(p: &Path) -> PathBuf {
    let mut out = PathBuf::new();
    for c in p.components() {
        match c {
            Component::ParentDir => {
                out.pop();
            }
            Component::CurDir => {}
            other => out.push(other.as_os_str()),
        }
    }
    out
}

/// "<source stem>.hex next to the source (or the -o path)", "<stem>.eep.hex (or the -e path)"
pub fn expected_paths(root: &Path, cwd: &str, p: &Parsed) -> Option<(PathBuf, PathBuf)> {
    let base = root.join(cwd);
    let src = PathBuf::from(p.source.as_ref()?);
    let stem = src.file_stem()?.to_str()?.to_string();
    let parent = src.parent().map(|x| x.to_path_buf()).unwrap_or_default();
    let abs = |q: &Path| -> PathBuf { normalise(&if q.is_absolute() { q.to_path_buf() } else { base.join(q) }) };
    let code = match &p.output {
        Some(o) => abs(Path::new(o)),
        None => abs(&parent.join(format!("{}.hex", stem))),
    };
    let eep = match &p.eeprom {
        Some(o) => abs(Path::new(o)),
        None => abs(&parent.join(format!("{}.eep.hex", stem))),
    };
    Some((code, eep))
}

// ---------------------------------------------------------------------------------------------
// the simulated disk
// ---------------------------------------------------------------------------------------------

pub fn stale_bytes(n: usize) -> Vec<u8> {
    let mut v = Vec::with_capacity(n);
    while v.len() < n {
        v.extend_from_slice(b"STALE-OUTPUT-FROM-AN-EARLIER-RUN\n");
    }
    v.truncate(n);
    v
}

type Snapshot = BTreeMap<String, Option<Vec<u8>>>; // None = directory

fn snapshot(root: &Path) -> Snapshot {
    fn walk(root: &Path, dir: &Path, out: &mut Snapshot) {
        if let Ok(rd) = std::fs::read_dir(dir) {
            for e in rd.flatten() {
                let p = e.path();
                let rel = p.strip_prefix(root).unwrap().to_string_lossy().into_owned();
                let ft = match e.file_type() {
                    Ok(t) => t,
                    Err(_) => continue,
                };
                if ft.is_dir() {
                    out.insert(rel, None);
                    walk(root, &p, out);
                } else {
                    out.insert(rel, Some(std::fs::read(&p).unwrap_or_default()));
                }
            }
        }
    }
    let mut s = Snapshot::new();
    walk(root, root, &mut s);
    s
}

fn materialise(sc: &Scenario, root: &Path) -> Result<(), String> {
    for d in &sc.dirs {
        std::fs::create_dir_all(root.join(pb(d))).map_err(|e| format!("mkdir {}: {}", d, e))?;
    }
    std::fs::create_dir_all(root.join(pb(&sc.cwd))).map_err(|e| e.to_string())?;
    for (p, t) in &sc.files {
        let fp = root.join(pb(p));
        if let Some(d) = fp.parent() {
            std::fs::create_dir_all(d).map_err(|e| e.to_string())?;
        }
        let mut bytes = t.as_bytes().to_vec();
        if let Some((f, off)) = &sc.flip {
            if f == p && !bytes.is_empty() {
                let o = (*off).min(bytes.len() - 1);
                bytes[o] = 0xFF;
            }
        }
        match sc.symlinks.get(p) {
            Some(target) => {
                let tp = root.join(pb(target));
                if let Some(d) = tp.parent() {
                    std::fs::create_dir_all(d).map_err(|e| e.to_string())?;
                }
                std::fs::write(&tp, bytes).map_err(|e| format!("write {}: {}", target, e))?;
                std::os::unix::fs::symlink(&tp, &fp).map_err(|e| format!("symlink {}: {}", p, e))?;
            }
            None => std::fs::write(&fp, bytes).map_err(|e| format!("write {}: {}", p, e))?,
        }
    }
    for (p, n) in &sc.stale {
        let fp = root.join(pb(p));
        if let Some(d) = fp.parent() {
            std::fs::create_dir_all(d).map_err(|e| e.to_string())?;
        }
        std::fs::write(&fp, stale_bytes(*n)).map_err(|e| format!("write {}: {}", p, e))?;
    }
    for (p, t) in &sc.stale_text {
        let fp = root.join(pb(p));
        if let Some(d) = fp.parent() {
            std::fs::create_dir_all(d).map_err(|e| e.to_string())?;
        }
        if fp.is_dir() {
            continue;
        }
        std::fs::write(&fp, t).map_err(|e| format!("write {}: {}", p, e))?;
    }
    Ok(())
}

// ---------------------------------------------------------------------------------------------
// reference build (in-process, fault-free)
// ---------------------------------------------------------------------------------------------

#[derive(Debug, Clone)]
pub enum Reference {
    Built { code: Vec<u8>, eeprom: Vec<u8> },
    Fails(String),
}

/// The environment the tool and the in-process reference see for locating the standard includes.
fn env_for(sc: &Scenario, xdg: &Path, ctl: &Path) -> (Option<PathBuf>, Option<PathBuf>) {
    match sc.envmode.as_str() {
        "home" => (None, Some(ctl.join("home"))),
        "home-extra" => (None, Some(ctl.join("home2"))),
        "none" => (None, None),
        _ => (Some(xdg.to_path_buf()), Some(ctl.join("nohome"))),
    }
}

pub fn reference(root: &Path, sc: &Scenario, xdg: &Path, ctl: &Path) -> Reference {
    let (x, h) = env_for(sc, xdg, ctl);
    match &x {
        Some(v) => std::env::set_var("XDG_CONFIG_HOME", v),
        None => std::env::remove_var("XDG_CONFIG_HOME"),
    }
    match &h {
        Some(v) => std::env::set_var("HOME", v),
        None => std::env::remove_var("HOME"),
    }
    let r = reference_inner(root, sc);
    std::env::set_var("XDG_CONFIG_HOME", xdg);
    r
}

fn reference_inner(root: &Path, sc: &Scenario) -> Reference {
    let p = parse_argv(&sc.argv);
    let src = match p.source {
        Some(s) => s.replace("$R", &root.to_string_lossy()),
        None => return Reference::Fails("no source argument".into()),
    };
    let cwd = root.join(pb(&sc.cwd));
    let old = std::env::current_dir().ok();
    if std::env::set_current_dir(&cwd).is_err() {
        return Reference::Fails("cwd".into());
    }
    let h = std::thread::Builder::new()
        .stack_size(64 << 20)
        .spawn(move || {
            std::panic::catch_unwind(|| {
                avra_lib::builder::build_file(pb(&src), maplit::btreeset! { avra_lib::utility::get_standard_includes() }).map_err(|e| e.to_string())
            })
        })
        .expect("spawn");
    let r = h.join();
    if let Some(o) = old {
        let _ = std::env::set_current_dir(o);
    }
    match r {
        Ok(Ok(Ok(b))) => Reference::Built { code: b.code, eeprom: b.eeprom },
        Ok(Ok(Err(e))) => Reference::Fails(e),
        Ok(Err(p)) => Reference::Fails(format!("panic: {}", panic_text(p))),
        Err(p) => Reference::Fails(format!("panic: {}", panic_text(p))),
    }
}

// ---------------------------------------------------------------------------------------------
// running the binary
// ---------------------------------------------------------------------------------------------

pub struct Env {
    pub scratch: Scratch,
    pub root: PathBuf,
    pub ctl: PathBuf,
    pub bin: PathBuf,
    pub preload: PathBuf,
    pub xdg: PathBuf,
}

impl Env {
    pub fn new(tag: &str) -> Result<Env, String> {
        let scratch = Scratch::new(tag).map_err(|e| e.to_string())?;
        let root = scratch.path("root");
        let ctl = scratch.path("ctl");
        std::fs::create_dir_all(&root).map_err(|e| e.to_string())?;
        std::fs::create_dir_all(&ctl).map_err(|e| e.to_string())?;
        let bin = PathBuf::from(std::env::var("VERIF_AVRA_BIN").map_err(|_| "VERIF_AVRA_BIN not set (run through /verif/check)")?);
        let preload = PathBuf::from(std::env::var("VERIF_PRELOAD").map_err(|_| "VERIF_PRELOAD not set")?);
        let xdg = PathBuf::from(std::env::var("VERIF_XDG").map_err(|_| "VERIF_XDG not set")?);
        if !bin.exists() {
            return Err(format!("binary {} missing", bin.display()));
        }
        if !preload.exists() {
            return Err(format!("preload library {} missing", preload.display()));
        }
        let xdg = xdg.canonicalize().map_err(|e| format!("xdg: {}", e))?;
        // the in-process reference finds the standard include directory through the same variable
        std::env::set_var("XDG_CONFIG_HOME", &xdg);
        // a home directory whose .config holds the same standard include directory
        std::fs::create_dir_all(ctl.join("home/.config")).map_err(|e| e.to_string())?;
        let _ = std::os::unix::fs::symlink(xdg.join("avra-rs"), ctl.join("home/.config/avra-rs"));
        // and a home directory with a private standard include directory: every shipped file
        // (as a symbolic link) plus whatever a scenario puts there
        let inc2 = ctl.join("home2/.config/avra-rs/includes");
        std::fs::create_dir_all(&inc2).map_err(|e| e.to_string())?;
        if let Ok(rd) = std::fs::read_dir(xdg.join("avra-rs/includes")) {
            for e in rd.flatten() {
                let _ = std::os::unix::fs::symlink(e.path(), inc2.join(e.file_name()));
            }
        }
        Ok(Env { scratch, root, ctl, bin, preload, xdg })
    }
    fn clear_root(&self) {
        let _ = std::fs::remove_dir_all(&self.root);
        let _ = std::fs::create_dir_all(&self.root);
    }
}

pub struct RunOut {
    pub status: Option<i32>,
    pub signal: Option<i32>,
    pub timed_out: bool,
    pub stdout: Vec<u8>,
    pub stderr: Vec<u8>,
    pub trace: Vec<Event>,
    pub before: Snapshot,
    pub after: Snapshot,
}

/// The scenario's own files in the private standard include directory (everything that is not a
/// link to a shipped file is from an earlier scenario and goes first).
fn materialise_config(env_ctl: &Path, sc: &Scenario) -> Result<(), String> {
    let inc2 = env_ctl.join("home2/.config/avra-rs/includes");
    if let Ok(rd) = std::fs::read_dir(&inc2) {
        for e in rd.flatten() {
            if !e.file_type().map(|t| t.is_symlink()).unwrap_or(false) {
                let _ = std::fs::remove_file(e.path());
            }
        }
    }
    for (n, t) in &sc.config_files {
        std::fs::write(inc2.join(pb(n)), t).map_err(|e| format!("write config file {}: {}", n, e))?;
    }
    Ok(())
}

pub fn execute(env: &Env, sc: &Scenario, budget: u64) -> Result<RunOut, String> {
    env.clear_root();
    materialise(sc, &env.root)?;
    materialise_config(&env.ctl, sc)?;
    let before = snapshot(&env.root);
    let root_s = env.root.to_string_lossy().into_owned();
    // trace pipe
    let mut fds = [0 as libc::c_int; 2];
    if unsafe { libc::pipe(fds.as_mut_ptr()) } != 0 {
        return Err("pipe".into());
    }
    let (rfd, wfd) = (fds[0], fds[1]);
    unsafe {
        libc::fcntl(rfd, libc::F_SETFD, libc::FD_CLOEXEC);
        libc::fcntl(rfd, libc::F_SETPIPE_SZ, 1 << 20);
    }
    let mut conf = String::new();
    conf.push_str(&format!("root {}\nroot2 {}\ntracefd {}\nhashseed {}\nbudget {}\n", root_s, env.xdg.join("avra-rs/includes").display(), wfd, sc.hash_seed, budget));
    if sc.read_cap > 0 {
        conf.push_str(&format!("readcap {}\n", sc.read_cap));
    }
    if sc.write_cap > 0 {
        conf.push_str(&format!("writecap {}\n", sc.write_cap));
    }
    for r in rules_to_sim(&sc.rules)? {
        conf.push_str(&simlibc::conf_line(&r));
        conf.push('\n');
    }
    let confp = env.ctl.join("conf");
    std::fs::write(&confp, conf).map_err(|e| e.to_string())?;
    let argv: Vec<std::ffi::OsString> = sc.argv.iter().map(|a| os(&a.replace("$R", &root_s))).collect();
    let mut cmd = Command::new(&env.bin);
    cmd.args(&argv)
        .current_dir(env.root.join(pb(&sc.cwd)))
        .env_clear()
        .envs(env_for(sc, &env.xdg, &env.ctl).0.iter().map(|v| ("XDG_CONFIG_HOME", v.clone())))
        .envs(env_for(sc, &env.xdg, &env.ctl).1.iter().map(|v| ("HOME", v.clone())))
        .env("LD_PRELOAD", &env.preload)
        .env("SIMLIBC_CONF", &confp)
        .env("RUST_BACKTRACE", "0")
        .envs(sc.knob.iter().map(|(k, v)| (k.clone(), v.clone())))
        .stdin(Stdio::null())
        .stderr(Stdio::piped());
    match sc.stdout.as_str() {
        "devfull" => {
            let f = std::fs::OpenOptions::new().write(true).open("/dev/full").map_err(|e| e.to_string())?;
            cmd.stdout(f);
        }
        _ => {
            cmd.stdout(Stdio::piped());
        }
    }
    let limit = sc.fsize_limit;
    let close_stdout = sc.stdout == "closed";
    unsafe {
        cmd.pre_exec(move || {
            libc::signal(libc::SIGXFSZ, libc::SIG_IGN);
            if let Some(n) = limit {
                let rl = libc::rlimit { rlim_cur: n as libc::rlim_t, rlim_max: libc::RLIM_INFINITY };
                libc::setrlimit(libc::RLIMIT_FSIZE, &rl);
            }
            if close_stdout {
                libc::close(1);
            }
            Ok(())
        });
    }
    let mut child = cmd.spawn().map_err(|e| format!("spawn: {}", e))?;
    unsafe {
        libc::close(wfd);
    }
    let mut so = child.stdout.take();
    let mut se = child.stderr.take();
    let t_out = std::thread::spawn(move || {
        let mut v = vec![];
        if let Some(s) = so.as_mut() {
            let _ = s.read_to_end(&mut v);
        }
        v
    });
    let t_err = std::thread::spawn(move || {
        let mut v = vec![];
        if let Some(s) = se.as_mut() {
            let _ = s.read_to_end(&mut v);
        }
        v
    });
    let t_trace = std::thread::spawn(move || {
        let mut v = vec![];
        let mut buf = [0u8; 65536];
        loop {
            let n = unsafe { libc::read(rfd, buf.as_mut_ptr() as *mut libc::c_void, buf.len()) };
            if n <= 0 {
                break;
            }
            v.extend_from_slice(&buf[..n as usize]);
        }
        unsafe {
            libc::close(rfd);
        }
        v
    });
    // wall clock only decides *when* a hang is noticed
    let start = now_secs();
    let mut timed_out = false;
    let status = loop {
        match child.try_wait() {
            Ok(Some(s)) => break Some(s),
            Ok(None) => {
                if now_secs() - start > 30.0 {
                    timed_out = true;
                    let _ = child.kill();
                    break child.wait().ok();
                }
                std::thread::sleep(std::time::Duration::from_micros(300));
            }
            Err(_) => break None,
        }
    };
    let stdout = t_out.join().unwrap_or_default();
    let stderr = t_err.join().unwrap_or_default();
    let trace_raw = t_trace.join().unwrap_or_default();
    let trace = simlibc::parse_trace(&String::from_utf8_lossy(&trace_raw));
    let after = snapshot(&env.root);
    use std::os::unix::process::ExitStatusExt;
    Ok(RunOut {
        status: status.and_then(|s| s.code()),
        signal: status.and_then(|s| s.signal()),
        timed_out,
        stdout,
        stderr,
        trace,
        before,
        after,
    })
}

// ---------------------------------------------------------------------------------------------
// oracle
// ---------------------------------------------------------------------------------------------

fn rel_of(root: &Path, p: &Path) -> Option<String> {
    p.strip_prefix(root).ok().map(|r| r.to_string_lossy().into_owned())
}

#[derive(Debug, PartialEq)]
enum PathState {
    Untouched,
    ExactlyRight,
    Wrong(String),
}

fn output_state(before: &Snapshot, after: &Snapshot, rel: &Option<String>, abs: &Path, image: &[u8], opened: bool) -> PathState {
    // outputs outside the scratch root (e.g. /dev/full) cannot be inspected: an empty image
    // needs nothing there, a non-empty one cannot be "right"
    let (b, a) = match rel {
        Some(r) => (before.get(r), after.get(r)),
        None => {
            return if image.is_empty() || !opened { PathState::Untouched } else { PathState::Wrong(format!("{} is not a regular file that holds the image", abs.display())) };
        }
    };
    let untouched = b == a;
    let right = match a {
        Some(Some(bytes)) => match hexread::decode(bytes).and_then(|d| hexread::matches_image(&d, image)) {
            Ok(()) => Ok(()),
            Err(e) => Err(e),
        },
        Some(None) => Err("is a directory".to_string()),
        None => Err("does not exist".to_string()),
    };
    if image.is_empty() {
        // lenient: an empty image may be skipped (path untouched) or written as an empty file
        if untouched || right.is_ok() {
            return if untouched { PathState::Untouched } else { PathState::ExactlyRight };
        }
        // ... or cleared away: "no file" is as right for an empty image after a stale file was
        // removed as it is when there never was one
        if matches!(a, None) {
            return PathState::ExactlyRight;
        }
        return PathState::Wrong(format!("empty image, but the path was altered and does not decode to the empty image: {}", right.unwrap_err()));
    }
    match right {
        Ok(()) => PathState::ExactlyRight,
        Err(e) => {
            if untouched {
                PathState::Untouched
            } else {
                PathState::Wrong(e)
            }
        }
    }
}

fn is_output_path(ev_path: &str, root_rel: &Option<String>, abs: &Path) -> bool {
    // trace paths are as the program passed them: "$R/..." for absolute, or relative to cwd
    if let Some(r) = root_rel {
        if ev_path == format!("$R/{}", r) {
            return true;
        }
    }
    ev_path == abs.to_string_lossy()
}

pub struct Facts {
    pub hard_input: bool,
    pub fault_on_code: bool,
    pub fault_on_eep: bool,
    pub hard_on_code: bool,
    pub hard_on_eep: bool,
    pub benign_fired: bool,
    pub stdout_fault: bool,
    pub budget_hit: bool,
    pub any: bool,
}

fn abs_of_event(root: &Path, cwd: &str, ev_path: &str) -> PathBuf {
    if let Some(r) = ev_path.strip_prefix("$R") {
        normalise(&PathBuf::from(format!("{}{}", root.display(), r)))
    } else if ev_path.starts_with('/') || ev_path.starts_with('$') || ev_path.starts_with('<') {
        PathBuf::from(ev_path)
    } else {
        normalise(&root.join(cwd).join(ev_path))
    }
}

fn facts(sc: &Scenario, out: &RunOut, root: &Path, code_abs: &Path, eep_abs: &Path) -> Facts {
    let mut f = Facts { hard_input: false, fault_on_code: false, fault_on_eep: false, hard_on_code: false, hard_on_eep: false, benign_fired: false, stdout_fault: sc.stdout != "pipe", budget_hit: false, any: false };
    for e in &out.trace {
        let abs = abs_of_event(root, &sc.cwd, &e.path);
        // a temp-like sibling of an output (same directory, name containing the output's name)
        // is that output as far as faults go: an atomic writer works on "<out>.tmp"
        let sibling = |a: &Path, o: &Path| -> bool {
            match (a.parent(), o.parent(), a.file_name().and_then(|x| x.to_str()), o.file_name().and_then(|x| x.to_str())) {
                (Some(ap), Some(op), Some(an), Some(on)) => ap == op && an != on && an.contains(on),
                _ => false,
            }
        };
        let on_code = abs == code_abs || sibling(&abs, code_abs);
        let on_eep = abs == eep_abs || (sibling(&abs, eep_abs) && !on_code);
        let on_std = e.path.starts_with("<std");
        if e.rule == -2 {
            f.budget_hit = true;
        }
        let injected = e.rule >= 0;
        let failed = e.errno != 0;
        let benign = (injected && (e.errno == libc::EINTR || (e.errno == 0 && e.ret > 0))) || (!injected && !failed && matches!(e.call, Call::Read | Call::Write) && e.ret >= 0 && e.ret < e.req && (sc.read_cap > 0 || sc.write_cap > 0 || sc.fsize_limit.is_some()));
        let zero_write = injected && e.call == Call::Write && e.ret == 0 && e.req > 0;
        let hard = (failed && e.errno != libc::EINTR && (injected || !(e.call == Call::Stat && e.errno == libc::ENOENT))) || zero_write;
        if on_std {
            if failed || injected {
                f.stdout_fault = true;
            }
            continue;
        }
        if on_code || on_eep {
            if hard || benign {
                if on_code {
                    f.fault_on_code = true;
                }
                if on_eep {
                    f.fault_on_eep = true;
                }
            }
            if hard {
                if on_code {
                    f.hard_on_code = true;
                }
                if on_eep {
                    f.hard_on_eep = true;
                }
            }
            if benign {
                f.benign_fired = true;
            }
        } else {
            // a source or include path
            if hard && injected {
                f.hard_input = true;
            } else if benign {
                f.benign_fired = true;
            } else if injected {
                f.hard_input = true;
            }
        }
    }
    f.any = f.hard_input || f.fault_on_code || f.fault_on_eep || f.benign_fired || f.stdout_fault || f.budget_hit;
    f
}

fn text_head(b: &[u8]) -> String {
    String::from_utf8_lossy(&b[..b.len().min(400)]).into_owned()
}

/// A command line the tool may reject (an unknown option, a stray argument): rejecting it
/// visibly without touching anything and accepting it and doing the job are both fine.
pub fn judge(sc: &Scenario, out: &RunOut, reference: &Reference, root: &Path, seed: u64) -> Option<Violation> {
    let parsed = parse_argv(&sc.argv);
    if parsed.unknown && matches!(reference, Reference::Built { .. }) {
        if judge_inner(sc, out, &Reference::Fails("usage error".into()), root, seed).is_none() {
            return None;
        }
    }
    judge_inner(sc, out, reference, root, seed)
}

fn judge_inner(sc0: &Scenario, out: &RunOut, reference: &Reference, root: &Path, seed: u64) -> Option<Violation> {
    // names that are not UTF-8: traces, snapshots and messages show them as to_string_lossy does,
    // so the judging is done on the scenario spelled that way (distinct names stay distinct)
    let scl = lossy_view(sc0);
    let sc = &scl;
    let parsed = parse_argv(&sc.argv);
    let mut parsed_abs = parsed.clone();
    let root_s = root.to_string_lossy().into_owned();
    for slot in [&mut parsed_abs.source, &mut parsed_abs.output, &mut parsed_abs.eeprom] {
        if let Some(s) = slot {
            *s = s.replace("$R", &root_s);
        }
    }
    let (code_abs, eep_abs) = match expected_paths(root, &sc.cwd, &parsed_abs) {
        Some(x) => x,
        None => (root.join("__none__.hex"), root.join("__none__.eep.hex")),
    };
    let code_rel = rel_of(root, &code_abs);
    let eep_rel = rel_of(root, &eep_abs);
    let mut f = facts(sc, out, root, &code_abs, &eep_abs);
    if sc.knob.is_some() {
        f.benign_fired = true;
        f.any = true;
    }
    {
        // an output spelled "name/" or "name/." cannot be written, whatever the tool tries:
        // that is a fault of the command line on that output
        let dir_spelling = |o: &Option<String>| o.as_ref().map(|p| p.ends_with('/') || p.ends_with("/.")).unwrap_or(false);
        if dir_spelling(&parsed.output) {
            f.fault_on_code = true;
            f.hard_on_code = true;
            f.any = true;
        }
        if dir_spelling(&parsed.eeprom) {
            f.fault_on_eep = true;
            f.hard_on_eep = true;
            f.any = true;
        }
    }
    if sc.source_class == "shadowed-part-file" && (f.hard_input || sc.read_cap > 0 || out.trace.iter().any(|e| e.rule >= 0 && !e.path.starts_with('<') && !e.path.ends_with(".hex") && !e.path.contains("eep"))) {
        // two files qualify for the include: a fault on one candidate legitimately leads the
        // tool to the other one, which the fault-free reference did not use - not judged
        return None;
    }
    let opts = format!("{}{}{}", if parsed.output.is_some() { "o" } else { "" }, if parsed.eeprom.is_some() { "e" } else { "" }, if parsed.verbose { "v" } else { "" });
    let fault_sig = if f.budget_hit {
        "budget"
    } else if f.hard_input {
        "input"
    } else if f.hard_on_code || f.hard_on_eep {
        "output-hard"
    } else if f.fault_on_code || f.fault_on_eep || f.benign_fired {
        "benign"
    } else if f.stdout_fault {
        "stdout"
    } else {
        "none"
    };
    let mk = |class: &str, expected: &str, detail: Value| -> Option<Violation> {
        Some(Violation {
            property: "C18".into(),
            engine: "cli".into(),
            class: class.into(),
            signature: format!("class={} ref={} faults={} opts={}", class, if matches!(reference, Reference::Built { .. }) { "ok" } else { "fails" }, fault_sig, opts),
            seed,
            expected: expected.into(),
            observed: json!({
                "exit_status": out.status, "signal": out.signal,
                "stdout": text_head(&out.stdout), "stderr": text_head(&out.stderr),
                "detail": detail,
                "expected_flash_path": code_abs.to_string_lossy().replace(&root_s, "$R"),
                "expected_eeprom_path": eep_abs.to_string_lossy().replace(&root_s, "$R"),
                "trace_tail": trace_tail(&out.trace, 14),
            }),
            scenario: serde_json::to_value(sc0).unwrap(),
        })
    };
    if out.timed_out || f.budget_hit {
        return mk("no-progress", "the process ends within the step budget (4 x the fault-free call count + 64) and 30 s", json!({"timed_out": out.timed_out}));
    }
    let exit0 = out.status == Some(0);
    let printed = !out.stdout.is_empty() || !out.stderr.is_empty();
    // what changed on the disk. New directories are never held against the tool (creating the
    // parent directory of an output is not writing a file); a temp-like leftover next to an
    // output on which a fault fired is tolerated (an atomic writer that could not finish).
    let mut changed: Vec<String> = vec![];
    for (k, v) in &out.after {
        if v.is_none() && !out.before.contains_key(k) {
            continue; // a new directory
        }
        if out.before.get(k) != Some(v) {
            changed.push(k.clone());
        }
    }
    for (k, v) in &out.before {
        if !out.after.contains_key(k) {
            changed.push(format!("{}{} (removed)", k, if v.is_none() { "/" } else { "" }));
        }
    }
    let leftover_of = |c: &str, rel: &Option<String>, faulted: bool| -> bool {
        match rel {
            Some(r) if faulted && !out.before.contains_key(c) => {
                let (cd, cn) = (crate::incmodel::dirname(c), crate::incmodel::basename(c));
                let (rd, rn) = (crate::incmodel::dirname(r), crate::incmodel::basename(r));
                cd == rd && cn.contains(rn)
            }
            _ => false,
        }
    };
    let foreign: Vec<String> = changed
        .iter()
        .filter(|c| Some(c.as_str()) != code_rel.as_deref() && Some(c.as_str()) != eep_rel.as_deref())
        .filter(|c| !leftover_of(c, &code_rel, f.fault_on_code) && !leftover_of(c, &eep_rel, f.fault_on_eep))
        .cloned()
        .collect();

    match reference {
        Reference::Fails(why) => {
            // clauses 1 and 3: fails visibly, nothing created or altered - whatever else fired
            if !changed.is_empty() {
                return mk("output-touched-though-build-fails", "when the build fails no output file is created or altered", json!({"changed": changed, "reference_error": why}));
            }
            if exit0 {
                return mk("status0-on-failed-build", "when the build fails the process exits with a non-zero status", json!({"reference_error": why}));
            }
            if !printed && !f.stdout_fault {
                return mk("silent-failure", "the failure is reported", json!({"reference_error": why}));
            }
            None
        }
        Reference::Built { code, eeprom } => {
            let opened = |p: &Path| out.trace.iter().any(|e| e.call == Call::Open && e.ret >= 0 && abs_of_event(root, &sc.cwd, &e.path) == p);
            let mut cs = output_state(&out.before, &out.after, &code_rel, &code_abs, code, opened(&code_abs));
            let mut es = output_state(&out.before, &out.after, &eep_rel, &eep_abs, eeprom, opened(&eep_abs));
            // "name/" and "name/." can only name a directory: no file can be written *to the path
            // given*; a file that appears at the spelling without the slash is not that path
            let dir_spelling = |o: &Option<String>| o.as_ref().map(|p| p.ends_with('/') || p.ends_with("/.")).unwrap_or(false);
            if dir_spelling(&parsed.output) && cs == PathState::ExactlyRight {
                cs = PathState::Wrong("the -o path ends in a slash and cannot name a file; the image was written to another path".into());
            }
            if dir_spelling(&parsed.eeprom) && es == PathState::ExactlyRight {
                es = PathState::Wrong("the -e path ends in a slash and cannot name a file; the image was written to another path".into());
            }
            if code_abs == eep_abs {
                if !eeprom.is_empty() && !code.is_empty() {
                    return None; // both images sent to one path: outside the statement
                }
                // one path, one image: the state of the path is the state of that image's output
                if eeprom.is_empty() {
                    es = PathState::Untouched;
                } else {
                    cs = PathState::Untouched;
                }
            }
            let need_code = !code.is_empty();
            let need_eep = !eeprom.is_empty();
            let code_right = cs == PathState::ExactlyRight || (!need_code && cs == PathState::Untouched);
            let eep_right = es == PathState::ExactlyRight || (!need_eep && es == PathState::Untouched);
            let exactly_right = code_right && eep_right && foreign.is_empty();
            if exactly_right {
                return None; // (A): always acceptable; the status on success is recorded, not demanded
            }
            let detail = json!({"flash": format!("{:?}", cs), "eeprom": format!("{:?}", es), "other_files_changed": foreign, "image_len": code.len(), "eeprom_len": eeprom.len()});
            if !foreign.is_empty() {
                return mk("foreign-file-touched", "no file other than the two outputs is created or altered", detail);
            }
            if exit0 {
                // clause 7 (and clause 2 when nothing fired)
                return mk("status0-with-wrong-or-missing-output", "exit status 0 implies: flash at <stem>.hex / -o and non-empty EEPROM at <stem>.eep.hex / -e decode to exactly the library's images", detail);
            }
            // non-zero exit, outputs not exactly right
            if !f.any {
                return mk("wrong-or-missing-output", "on a healthy system a source that builds gets its outputs written exactly", detail);
            }
            if !printed && !f.stdout_fault {
                return mk("silent-failure", "the failure is reported", detail);
            }
            if f.hard_input && changed.is_empty() {
                // clause 4: the build could not be done -> fails visibly, nothing touched
                return None;
            }
            // (an input fault the tool rode through - e.g. a failing stat on one candidate
            // location - leaves a successful build; what follows is judged as without it)
            // clauses 5 and 6: a path on which a fault fired may hold a partial file; every
            // other output path is untouched or exactly right
            let code_ok = code_right || cs == PathState::Untouched || f.fault_on_code;
            let eep_ok = eep_right || es == PathState::Untouched || f.fault_on_eep;
            if !code_ok || !eep_ok {
                return mk("unfaulted-output-damaged", "after a failed write a partial file may remain at the faulted path only; every output path on which nothing fired is untouched or exactly right", detail);
            }
            None
        }
    }
}

/// Every name of the scenario through `f` (file texts are left alone).
fn map_names(sc: &Scenario, f: &dyn Fn(&str) -> String) -> Scenario {
    let mut n = sc.clone();
    n.files = sc.files.iter().map(|(k, v)| (f(k), v.clone())).collect();
    n.stale = sc.stale.iter().map(|(k, v)| (f(k), *v)).collect();
    n.stale_text = sc.stale_text.iter().map(|(k, v)| (f(k), v.clone())).collect();
    n.dirs = sc.dirs.iter().map(|d| f(d)).collect();
    n.cwd = f(&sc.cwd);
    n.argv = sc
        .argv
        .iter()
        .map(|a| match a.split_once('=') {
            Some((o, v)) if o.starts_with("--") => format!("{}={}", o, f(v)),
            _ if a.starts_with('-') => a.clone(),
            _ => f(a),
        })
        .collect();
    n.symlinks = sc.symlinks.iter().map(|(k, v)| (f(k), f(v))).collect();
    n.flip = sc.flip.as_ref().map(|(k, o)| (f(k), *o));
    for r in n.rules.iter_mut() {
        r.target = f(&r.target);
    }
    n
}

fn lossy_view(sc: &Scenario) -> Scenario {
    if !has_raw(&sc.cwd) && !sc.argv.iter().any(|a| has_raw(a)) && !sc.files.keys().any(|k| has_raw(k)) && !sc.dirs.iter().any(|k| has_raw(k)) && !sc.stale.keys().any(|k| has_raw(k)) {
        return sc.clone();
    }
    map_names(sc, &|s| lossy(s))
}

/// Directory and output file names that are not valid UTF-8 (the stem of the source stays
/// UTF-8: the default output names are derived from it as text).
fn raw_names(sc: &Scenario, b: u8) -> Scenario {
    let c = raw_byte_char(b);
    map_names(sc, &|s| {
        s.split('/')
            .map(|comp| match comp {
                "proj" | "src" | "abs dir" | "outdir" | "abs out" | "work" | "elsewhere" | "store" => format!("{}{}", comp, c),
                "flash out.hex" => format!("flash out{}.hex", c),
                "data.eep" => format!("da{}ta.eep", c),
                other => other.to_string(),
            })
            .collect::<Vec<_>>()
            .join("/")
    })
}

// ---------------------------------------------------------------------------------------------
// workload
// ---------------------------------------------------------------------------------------------

const STEMS: &[&str] = &["prog", "a.b", "noext", "my prog", "прог", "UPPER", "x-1_y", "t.asm.v2", "settings.eep", "fw.hex", " lead", "trail "];
const EXTS: &[&str] = &[".asm", ".asm", ".asm", ".s", ".ASM", ""];
const PARTS: &[&str] = &["m48def.inc", "tn13def.inc", "m8def.inc", "m328Pdef.inc", "tn2313def.inc"];

fn gen_program(r: &mut Rng, want_fail: Option<&str>, tag: &str) -> String {
    let pool = proggen::Pool::new(r);
    let mut o = proggen::GenOpts::default();
    o.min_blocks = 3;
    o.max_blocks = 12;
    o.msg_tag = tag.to_string();
    o.fail = want_fail.map(|s| s.to_string());
    proggen::gen(r, &pool, &o).text()
}

pub fn scenario_shape(tier: &str, base_seed: u64, g: u64) -> Scenario {
    let seed = mix(base_seed, &[0xC18, g]);
    let mut r = Rng::new(seed);
    let mut sc = Scenario {
        engine: "cli".into(),
        files: BTreeMap::new(),
        stale: BTreeMap::new(),
        dirs: vec![],
        cwd: String::new(),
        argv: vec![],
        rules: vec![],
        read_cap: 0,
        write_cap: 0,
        fsize_limit: None,
        stdout: "pipe".into(),
        hash_seed: seed,
        source_class: String::new(),
        config: String::new(),
        flip: None,
        envmode: "xdg".into(),
        knob: None,
        symlinks: BTreeMap::new(),
        config_files: BTreeMap::new(),
        stale_text: BTreeMap::new(),
    };
    // ---- the source --------------------------------------------------------------------------
    let stem = STEMS[r.usize(STEMS.len())].to_string();
    // one source in twelve has a name that is not valid UTF-8 (a Latin-1 umlaut, a stray byte)
    let stem = if r.chance(1, 12) { format!("Ger{}t{}", raw_byte_char([0xE4u8, 0xFF, 0x80, 0xC3][r.usize(4)]), if r.chance(1, 2) { " 2" } else { "" }) } else { stem };
    let stem = stem.as_str();
    let ext = EXTS[r.usize(EXTS.len())];
    let ext = if stem == "noext" { "" } else { ext };
    // (a source called `fw.hex` would be its own default output)
    let ext = if ext.is_empty() && stem.ends_with(".hex") { ".asm" } else { ext };
    let fname = format!("{}{}", stem, ext);
    let (srcdir, cwd, form) = match r.below(5) {
        0 => ("".to_string(), "".to_string(), "bare"),
        1 => ("".to_string(), "".to_string(), "dot"),
        2 => ("proj/src".to_string(), "work".to_string(), "subdir"),
        3 => ("proj".to_string(), "".to_string(), "subdir"),
        _ => ("abs dir/p".to_string(), "elsewhere".to_string(), "abs"),
    };
    sc.cwd = cwd.clone();
    let src_rel = if srcdir.is_empty() { fname.clone() } else { format!("{}/{}", srcdir, fname) };
    let src_arg = match form {
        "bare" => fname.clone(),
        "dot" => format!("./{}", fname),
        "abs" => format!("$R/{}", src_rel),
        _ => {
            if cwd.is_empty() {
                src_rel.clone()
            } else {
                format!("{}/{}", up_from(&cwd), src_rel)
            }
        }
    };
    let classes = ["code", "code", "code+eeprom", "code+eeprom", "eeprom-only", "empty", "comments", "fail", "fail", "missing", "part-file", "part-file", "shadowed-part-file", "patterned-data", "no-ram-device", "local-include", "large", "large", "gen-any", "not-utf8", "source-is-directory", "no-source-option", "unknown-option", "in-standard-includes", "include-only-in-cwd-subdir", "panics-today", "deep-include-chain"];
    let mut class = classes[r.usize(classes.len())].to_string();
    if class == "in-standard-includes" && !(form == "bare" && !has_raw(stem)) {
        class = "code+eeprom".into(); // only a bare, plain name can be looked up there
    }
    if tier == "thorough" && r.chance(1, 60) {
        class = "huge".into();
    }
    let text: Option<String> = match class.as_str() {
        "code" => Some(format!("{}\n    ldi r16, {}\n    nop\n", gen_program(&mut r, None, "c"), r.below(256))),
        "code+eeprom" => Some(format!("{}.eseg\nee_final: .db {}, {}, \"tail\"\n.cseg\n    ret\n", gen_program(&mut r, None, "c"), r.below(256), r.below(256))),
        // the source does not exist as spelled; a file of that name in the standard include
        // directory is what the library builds (it looks the main file up like any include), so
        // that is what the tool writes - next to the path as given
        "in-standard-includes" => {
            let fk = if r.chance(1, 4) { Some("error-directive") } else { None };
            let t = format!("{}.eseg\n.db {}, 9\n.cseg\n    ret\n", gen_program(&mut r, fk, "s"), r.below(256));
            sc.config_files.insert(fname.clone(), t);
            None
        }
        "eeprom-only" => Some(format!("; nothing for the flash\n.eseg\n.db {}, 2, 3\n.dw {}\n", r.below(256), r.below(60000))),
        "empty" => Some(String::new()),
        "comments" => Some("; only a comment\n\n   // and another\n".to_string()),
        // a source on which today's library panics instead of returning an error (a C16 matter);
        // for the tool it is a build that fails: reported, non-zero status, nothing written
        "panics-today" => Some(format!("    nop\n{}\n", ["    ldi r99, 1", ".equ big = 99999999999999999999", "    ldi r16", "    add r1"][r.usize(4)])),
        "fail" => {
            let k = proggen::FAIL_KINDS[r.usize(proggen::FAIL_KINDS.len())];
            let eep = if r.chance(1, 2) { ".eseg\n.db 1, 2\n.cseg\n" } else { "" };
            Some(format!("{}{}", eep, gen_program(&mut r, Some(k), "f")))
        }
        "missing" | "source-is-directory" => None,
        "not-utf8" | "no-source-option" | "unknown-option" => Some(format!("{}.eseg\n.db 1\n", gen_program(&mut r, None, "u"))),
        "part-file" => {
            let p = PARTS[r.usize(PARTS.len())];
            Some(format!(".include \"{}\"\n    ldi r16, low(RAMEND)\n    out SPL, r16\n.eseg\n.db 7\n", p))
        }
        // a file of the same name as a shipped part file next to the source (or in the cwd): which
        // one wins is the library's business - the tool must build what the library builds when
        // it is given the very same arguments
        "shadowed-part-file" => {
            let p = PARTS[r.usize(PARTS.len())];
            let place = match r.below(3) {
                0 => if srcdir.is_empty() { String::new() } else { format!("{}/", srcdir) },
                1 => if cwd.is_empty() { String::new() } else { format!("{}/", cwd) },
                _ => if srcdir.is_empty() { String::new() } else { format!("{}/", srcdir) },
            };
            sc.files.insert(format!("{}{}", place, p), format!(".equ RAMEND = {}\n.equ SPL = 0x3d\n.device ATmega8\n", 0x100 + r.below(0x300)));
            Some(format!(".include \"{}\"\n    ldi r16, low(RAMEND)\n    ldi r17, high(RAMEND)\n    out SPL, r16\n.eseg\n.dw RAMEND\n", p))
        }
        // parts without SRAM and/or EEPROM (sizes of zero in the verbose report)
        "no-ram-device" => {
            let dev = ["ATtiny11", "ATtiny12", "ATtiny15", "ATtiny28", "AT90S1200", "ATtiny10"][r.usize(6)];
            let ee = if matches!(dev, "ATtiny12" | "ATtiny15" | "AT90S1200") && r.chance(1, 2) { ".eseg\n.db 1, 2, 3\n" } else { "" };
            Some(format!(".device {}\nstart:\n    ldi r16, {}\n    nop\n    rjmp start\n{}", dev, r.below(256), ee))
        }
        // image contents that "erased", "blank" or "line end" logic would key on
        "patterned-data" => {
            let mut t = String::new();
            let row = |b: &[u8]| -> String { format!(".db {}\n", b.iter().map(|x| x.to_string()).collect::<Vec<_>>().join(", ")) };
            let pats: [&[u8]; 5] = [&[255; 16], &[0; 16], &[10, 13, 58, 26, 10, 13, 58, 26, 255, 0, 10, 10, 13, 13, 58, 58], &[255, 255, 255, 255, 255, 255, 255, 255, 255, 255, 255, 255, 255, 255, 255, 1], &[7; 16]];
            for _ in 0..r.range(1, 4) {
                t.push_str(&row(pats[r.usize(2)]));
            }
            for _ in 0..r.range(1, 6) {
                t.push_str(&row(pats[r.usize(pats.len())]));
            }
            t.push_str("    ldi r16, 1\n");
            for _ in 0..r.range(0, 3) {
                t.push_str(&row(pats[r.usize(2)]));
            }
            if r.chance(1, 2) {
                t.push_str(".eseg\n");
                for _ in 0..r.range(1, 4) {
                    t.push_str(&row(pats[r.usize(pats.len())]));
                }
            }
            Some(t)
        }
        // a chain of 100-140 include files next to the source: the library builds it (the
        // reference runs on a 64 MiB stack), and so must the tool on its ordinary main thread - the
        // unchanged tool manages 400 levels in 8 MiB, i.e. under 20 KiB of stack per level
        "deep-include-chain" => {
            let n = r.range(100, 140) as usize;
            let pre = if srcdir.is_empty() { "".to_string() } else { format!("{}/", srcdir) };
            for i in 1..=n {
                let mut body = format!("    inc r{}\n", i % 16 + 1);
                if i < n {
                    body.push_str(&format!(".include \"c{:03}.inc\"\n", i + 1));
                } else {
                    body.push_str(".eseg\n.db 7, 8, 9\n.cseg\n");
                }
                body.push_str(&format!("    dec r{}\n", i % 16 + 1));
                sc.files.insert(format!("{}c{:03}.inc", pre, i), body);
            }
            Some("    nop\n.include \"c001.inc\"\n    ret\n".to_string())
        }
        "local-include" => {
            let inc = format!("{}defs.inc", if srcdir.is_empty() { "".to_string() } else { format!("{}/", srcdir) });
            let body = if r.chance(1, 4) { ".equ speed = 9\n.error \"stop in include\"\n".to_string() } else { format!(".equ speed = {}\n.def tmp = r17\n", r.below(200)) };
            sc.files.insert(inc, body);
            // a directory with a promising name in the working directory holds another file of
            // that name: the tool passes the library the standard include directory and nothing else
            if r.chance(1, 2) {
                let d = ["includes", "include", "inc", "lib"][r.usize(4)];
                let decoy = format!("{}{}/defs.inc", if cwd.is_empty() { String::new() } else { format!("{}/", cwd) }, d);
                if !sc.files.contains_key(&decoy) {
                    sc.files.insert(decoy, ".equ speed = 201\n.def tmp = r19\n    inc r3\n".to_string());
                }
            }
            Some(".include \"defs.inc\"\n    ldi tmp, speed\n.eseg\n.dw speed\n".to_string())
        }
        // the include exists only in such a directory: the library does not find it, so neither
        // does the tool
        "include-only-in-cwd-subdir" => {
            let d = ["includes", "include", "inc"][r.usize(3)];
            sc.files.insert(format!("{}{}/board.inc", if cwd.is_empty() { String::new() } else { format!("{}/", cwd) }, d), ".equ speed = 9\n.def tmp = r17\n".to_string());
            Some(".include \"board.inc\"\n    ldi tmp, speed\n.eseg\n.dw speed\n".to_string())
        }
        "large" => {
            let j = if r.chance(2, 3) { 1 } else { r.range(2, 4) };
            let dev = match r.below(4) {
                0 => ".device ATmega2560\n",
                1 if j == 1 => ".device ATmega1280\n",
                _ => "",
            };
            let back = r.range(0, 12);
            let n = r.range(back + 1, back + 24);
            let mut t = format!("{}    rjmp start\nstart:\n.org 0x{:x}\n", dev, 0x8000 * j - back);
            for i in 0..n {
                t.push_str(&format!("    ldi r{}, {}\n", 16 + (i % 16), (i * 7) % 256));
            }
            if r.chance(1, 2) {
                t.push_str(".eseg\n.db 1\n");
            }
            Some(t)
        }
        "huge" => Some(format!("    nop\n.org 0x{:x}\n    ldi r16, 1\n    ldi r17, 2\n", 0x80000 + r.below(3) * 0x8000 - r.below(2))),
        _ => {
            let k = if r.chance(1, 3) { Some(proggen::FAIL_KINDS[r.usize(proggen::FAIL_KINDS.len())]) } else { None };
            Some(gen_program(&mut r, k, "g"))
        }
    };
    sc.source_class = class.clone();
    if class == "missing" && r.chance(1, 2) {
        // the source named does not exist, but a file of the same stem with another extension
        // does (the tool must not pick it up on its own: the library would not)
        let sib = format!("{}{}.{}", if srcdir.is_empty() { String::new() } else { format!("{}/", srcdir) }, stem, if ext == ".asm" { "inc" } else { "asm" });
        sc.files.insert(sib, "    ldi r16, 1\n    nop\n.eseg\n.db 4\n".to_string());
    }
    if let Some(t) = text {
        if class == "not-utf8" {
            sc.flip = Some((src_rel.clone(), r.usize(t.len().max(1))));
        }
        sc.files.insert(src_rel.clone(), t);
    } else if class == "source-is-directory" {
        sc.dirs.push(src_rel.clone());
    } else if !srcdir.is_empty() {
        sc.dirs.push(srcdir.clone());
    }
    if sc.files.contains_key(&src_rel) && r.chance(1, 12) {
        // the source as given is a symbolic link; the outputs belong next to the path given
        sc.symlinks.insert(src_rel.clone(), format!("store/elsewhere/real source{}", ext));
    }
    sc.envmode = match r.below(12) {
        0 => "home".into(),
        1 if class != "part-file" => "none".into(),
        _ => "xdg".into(),
    };
    if class == "in-standard-includes" {
        sc.envmode = "home-extra".into();
    }
    if !cwd.is_empty() {
        sc.dirs.push(cwd.clone());
    }
    // ---- options -----------------------------------------------------------------------------
    let mut groups: Vec<Vec<String>> = vec![];
    let src_opt = match r.below(4) {
        0 => vec!["--source".to_string(), src_arg.clone()],
        1 => vec![format!("--source={}", src_arg)],
        _ => vec!["-s".to_string(), src_arg.clone()],
    };
    let mut given_o = None;
    let mut given_e = None;
    if r.chance(2, 5) {
        let p = out_choice(&mut r, "flash out.hex", &mut sc);
        given_o = Some(p.clone());
        groups.push(match r.below(3) {
            0 => vec!["--output".to_string(), p],
            1 => vec![format!("--output={}", p)],
            _ => vec!["-o".to_string(), p],
        });
    }
    // a source without EEPROM data whose flash output is sent to the very name the EEPROM file
    // would get by default: nothing ambiguous about it (there is no EEPROM file to write), and
    // whatever the tool does about "the EEPROM path" afterwards must leave the flash file alone
    let mut o_is_default_eep = false;
    if given_o.is_none() && matches!(class.as_str(), "code" | "large" | "patterned-data") && !has_raw(&src_arg) && r.chance(1, 7) {
        let (dir, name) = match src_arg.rfind('/') {
            Some(i) => (&src_arg[..=i], &src_arg[i + 1..]),
            None => ("", src_arg.as_str()),
        };
        if let Some(stem) = Path::new(name).file_stem().and_then(|x| x.to_str()) {
            let p = format!("{}{}.eep.hex", dir, stem);
            given_o = Some(p.clone());
            groups.push(vec!["-o".to_string(), p]);
            o_is_default_eep = true;
        }
    }
    if !o_is_default_eep && r.chance(2, 5) {
        let p = out_choice(&mut r, "data.eep", &mut sc);
        given_e = Some(p.clone());
        groups.push(match r.below(3) {
            0 => vec!["--eeprom".to_string(), p],
            1 => vec![format!("--eeprom={}", p)],
            _ => vec!["-e".to_string(), p],
        });
    }
    if r.chance(1, 3) || (class == "no-ram-device" && r.chance(2, 3)) {
        groups.push(vec![if r.chance(1, 2) { "-v".to_string() } else { "--verbosity".to_string() }]);
    }
    // the source option goes anywhere among the others
    let at = r.usize(groups.len() + 1);
    if class != "no-source-option" {
        groups.insert(at, src_opt);
    }
    if class == "unknown-option" {
        groups.push(vec![["--bogus", "-x", "--output-dir=there", "stray-argument"][r.usize(4)].to_string()]);
    }
    sc.argv = groups.into_iter().flatten().collect();
    // ---- pre-existing state --------------------------------------------------------------------
    let parsed = parse_argv(&sc.argv);
    let root = Path::new("/ROOT");
    let mut pabs = parsed.clone();
    for slot in [&mut pabs.source, &mut pabs.output, &mut pabs.eeprom] {
        if let Some(s) = slot {
            *s = s.replace("$R", "/ROOT");
        }
    }
    if let Some((c, e)) = expected_paths(root, &sc.cwd, &pabs) {
        for (p, given) in [(c, &given_o), (e, &given_e)] {
            if let Some(rel) = rel_of(root, &p) {
                let is_dir_case = sc.dirs.iter().any(|d| *d == rel);
                let missing_dir = given.as_ref().map(|g| g.starts_with("missing_dir/")).unwrap_or(false);
                if !is_dir_case && !missing_dir && r.chance(1, 3) {
                    sc.stale.insert(rel, 3000 + r.usize(3000));
                }
            }
        }
    }
    if r.chance(1, 2) {
        let d = if srcdir.is_empty() { String::new() } else { format!("{}/", srcdir) };
        sc.files.insert(format!("{}keep.txt", d), "unrelated neighbour\n".into());
        if r.chance(1, 2) {
            sc.stale.insert(format!("{}{}.lst", d, stem), 100);
        }
    }
    sc.dirs.sort();
    sc.dirs.dedup();
    // ---- configuration -----------------------------------------------------------------------
    let cfgs = ["free", "free", "enum", "enum", "enum", "pair", "cap", "fsize", "stdout", "enum"];
    sc.config = cfgs[r.usize(cfgs.len())].to_string();
    match sc.config.as_str() {
        "cap" => {
            if r.chance(1, 2) {
                sc.read_cap = [1usize, 3, 64][r.usize(3)];
            }
            if sc.read_cap == 0 || r.chance(1, 2) {
                sc.write_cap = [1usize, 7, 16, 45, 4096][r.usize(5)];
            }
            if matches!(class.as_str(), "large" | "huge") {
                sc.write_cap = sc.write_cap.max(4096) * if sc.write_cap > 0 { 1 } else { 0 };
            }
            if class == "part-file" && sc.read_cap > 0 {
                sc.read_cap = 64;
            }
        }
        "stdout" => {
            sc.stdout = if r.chance(1, 2) { "devfull".into() } else { "closed".into() };
        }
        _ => {}
    }
    // one command line in eight works in directories (and with explicitly named outputs) whose
    // names are not valid UTF-8: a Latin-1 letter, a lone continuation byte, 0xFF
    if r.chance(1, 8) {
        let b = [0xE4u8, 0xFC, 0x80, 0xFF, 0xC3][r.usize(5)];
        sc = raw_names(&sc, b);
    }
    sc
}

fn up_from(cwd: &str) -> String {
    cwd.split('/').filter(|s| !s.is_empty()).map(|_| "..").collect::<Vec<_>>().join("/")
}

/// where an explicitly given output goes: normal places and the real failure locations
fn out_choice(r: &mut Rng, name: &str, sc: &mut Scenario) -> String {
    match r.below(8) {
        0 => name.to_string(),
        1 => {
            sc.dirs.push("outdir".into());
            if sc.cwd.is_empty() {
                format!("outdir/{}", name)
            } else {
                format!("{}/outdir/{}", up_from(&sc.cwd), name)
            }
        }
        2 => {
            sc.dirs.push("abs out".into());
            format!("$R/abs out/{}", name)
        }
        3 => format!("missing_dir/{}", name),
        4 => {
            // the path is a directory
            let d = if sc.cwd.is_empty() { name.to_string() } else { format!("{}/{}", sc.cwd, name) };
            sc.dirs.push(d);
            name.to_string()
        }
        5 => {
            // a full device, simulated inside the scratch root (the binary under test is never
            // pointed at a real system path: a changed tree may rename over or unlink it):
            // the file exists and every write to it fails with ENOSPC
            // (-o and -e get different devices: the outputs are always different paths)
            let dev = format!("dev/full-{}", if name.ends_with(".hex") { "flash" } else { "eeprom" });
            sc.files.insert(dev.clone(), String::new());
            sc.rules.push(RuleSpec::errno("write", &format!("$R/{}", dev), -1, "ENOSPC", "full-device"));
            format!("$R/{}", dev)
        }
        // a name that begins or ends with a blank is a name
        6 if r.chance(1, 2) => {
            if r.chance(1, 2) {
                format!("{} ", name)
            } else {
                format!("./ {}", name)
            }
        }
        6 => format!("./{}", name),
        // a spelling that can only name a directory: the output cannot be written
        _ => format!("{}{}", name, if r.chance(1, 2) { "/" } else { "/." }),
    }
}

const INPUT_OPEN_ERR: &[&str] = &["ENOENT", "EACCES", "EMFILE", "ENFILE", "EIO", "ELOOP", "ENAMETOOLONG", "EISDIR"];
const OUTPUT_OPEN_ERR: &[&str] = &["ENOENT", "EACCES", "EROFS", "EMFILE", "ENOSPC", "EISDIR", "EIO", "ENFILE"];
const WRITE_FAULTS: &[&str] = &["ENOSPC", "EIO", "EDQUOT", "EFBIG", "short-by-1", "short-to-1", "EINTR", "EINTRx3", "zero"];
const READ_FAULTS: &[&str] = &["EIO", "EISDIR", "short-to-1", "short-to-7", "EINTR"];
const STDOUT_FAULTS: &[&str] = &["EPIPE", "ENOSPC", "EIO", "short-to-1", "EINTR"];

/// All single faults applicable to event number `i` of a profile trace.
pub fn faults_for_event(trace: &[Event], i: usize) -> Vec<Vec<RuleSpec>> {
    let e = &trace[i];
    let nth = trace[..i].iter().filter(|x| x.call == e.call && x.path == e.path).count() as i64;
    let is_out = trace.iter().any(|x| x.path == e.path && x.call == Call::Write);
    let t = e.path.as_str();
    let mut v: Vec<Vec<RuleSpec>> = vec![];
    match e.call {
        Call::Stat => {
            for er in ["EACCES", "EIO", "ELOOP"] {
                v.push(vec![RuleSpec::errno("stat", t, nth, er, "stat-fail")]);
            }
        }
        Call::Open => {
            let (errs, kind) = if is_out { (OUTPUT_OPEN_ERR, "open-fail") } else { (INPUT_OPEN_ERR, "open-fail") };
            for er in errs {
                let k = if !is_out && *er == "ENOENT" { "vanish" } else { kind };
                v.push(vec![RuleSpec::errno("open", t, nth, er, k)]);
            }
        }
        Call::Read => {
            for a in READ_FAULTS {
                v.push(match *a {
                    "short-to-1" => vec![RuleSpec::limit("read", t, nth, 1, "read-short")],
                    "short-to-7" => vec![RuleSpec::limit("read", t, nth, 7, "read-short")],
                    "EINTR" => vec![RuleSpec::errno("read", t, nth, "EINTR", "read-eintr")],
                    er => vec![RuleSpec::errno("read", t, nth, er, "read-fail")],
                });
            }
        }
        Call::Write => {
            let list = if t.starts_with('<') { STDOUT_FAULTS } else { WRITE_FAULTS };
            let pre = if t.starts_with('<') { "stdout" } else { "write" };
            for a in list {
                v.push(match *a {
                    "short-by-1" => vec![RuleSpec::shortby("write", t, nth, 1, &format!("{}-short", pre))],
                    "short-to-1" => vec![RuleSpec::limit("write", t, nth, 1, &format!("{}-short", pre))],
                    "EINTR" => vec![RuleSpec::errno("write", t, nth, "EINTR", &format!("{}-eintr", pre))],
                    "EINTRx3" => (0..3).map(|k| RuleSpec::errno("write", t, nth + k, "EINTR", &format!("{}-eintr", pre))).collect(),
                    "zero" => vec![RuleSpec::zero("write", t, nth, "write-zero")],
                    er => vec![RuleSpec::errno("write", t, nth, er, &format!("{}-fail", pre))],
                });
            }
        }
        Call::Close => {
            if is_out {
                v.push(vec![RuleSpec::errno("close", t, nth, "EIO", "close-fail")]);
            }
        }
        // the size an input reports is a hint (procfs, pipes, a file that grows while it is read)
        Call::Fstat if !is_out => {
            for n in [0usize, 7] {
                v.push(vec![RuleSpec::limit("fstat", t, nth, n, "size-lie")]);
            }
        }
        Call::Fsync => v.push(vec![RuleSpec::errno("fsync", t, nth, "EIO", "fsync-fail")]),
        // an advisory lock somebody else holds (EAGAIN = EWOULDBLOCK) - only a tree that takes
        // locks ever gets here
        Call::Flock => v.push(vec![RuleSpec::errno("flock", t, nth, "EAGAIN", "lock-busy")]),
        Call::Rename => v.push(vec![RuleSpec::errno("rename", t, nth, "EACCES", "rename-fail")]),
        Call::Ftruncate => v.push(vec![RuleSpec::errno("ftruncate", t, nth, "EIO", "ftruncate-fail")]),
        _ => {}
    }
    v
}

fn faultable_events(trace: &[Event]) -> Vec<usize> {
    trace
        .iter()
        .enumerate()
        .filter(|(_, e)| matches!(e.call, Call::Stat | Call::Open | Call::Read | Call::Write | Call::Close | Call::Fsync | Call::Flock | Call::Rename | Call::Ftruncate | Call::Fstat) && !(e.call == Call::Stat && e.ret != 0) && !(e.call == Call::Fstat && trace.iter().any(|x| x.path == e.path && x.call == Call::Write)))
        .map(|(i, _)| i)
        .collect()
}

fn scenario_hash(sc: &Scenario, out: &RunOut) -> u64 {
    let fired: Vec<String> = out.trace.iter().filter(|e| e.rule >= 0).map(|e| format!("{}:{}:{}", e.call.name(), e.path, e.errno)).collect();
    fnv(format!("{}|{:?}|{:?}|{:?}|{}|{:?}|{:?}|{:?}|{}", sc.source_class, sc.argv, sc.stale.keys().collect::<Vec<_>>(), fired, sc.stdout, sc.fsize_limit, out.status, (sc.read_cap, sc.write_cap), fnv(format!("{:?}", sc.files).as_bytes())).as_bytes())
}

struct Acc<'a> {
    stats: &'a mut Stats,
    emit: &'a mut dyn FnMut(Violation),
    found: usize,
    /// names outside the usual ones the tool asked the environment for in the runs so far
    knobs: BTreeSet<String>,
}

fn account(acc: &mut Acc, sc: &Scenario, out: &RunOut, reference: &Reference, root: &Path, seed: u64, g: u64, prof: Option<&[Event]>) {
    acc.knobs.extend(out.trace.iter().filter(|e| e.call == Call::Getenv).map(|e| e.path.clone()));
    let stats = &mut *acc.stats;
    stats.runs += 1;
    stats.steps += out.trace.len() as u64;
    let parsed = parse_argv(&sc.argv);
    let fired: Vec<&Event> = out.trace.iter().filter(|e| e.rule >= 0).collect();
    let mut nontrivial = false;
    if sc.rules.is_empty() && sc.read_cap == 0 && sc.write_cap == 0 && sc.fsize_limit.is_none() && sc.stdout == "pipe" {
        stats.fault_free_runs += 1;
    }
    for e in &fired {
        if let Some(spec) = sc.rules.get(e.rule as usize) {
            stats.fired(&spec.kind);
        }
    }
    let real_out_fail = out.trace.iter().any(|e| e.rule < 0 && e.errno != 0 && matches!(e.call, Call::Open | Call::Write) && (e.errno == libc::ENOSPC || e.errno == libc::EISDIR || e.errno == libc::EFBIG || (e.errno == libc::ENOENT && e.call == Call::Open && (e.req & libc::O_CREAT as i64) != 0)));
    if real_out_fail {
        for e in out.trace.iter().filter(|e| e.rule < 0 && e.errno != 0 && matches!(e.call, Call::Open | Call::Write)) {
            let k = match e.errno {
                x if x == libc::ENOSPC => "real-enospc",
                x if x == libc::EISDIR => "real-output-is-directory",
                x if x == libc::EFBIG => "real-rlimit-fsize",
                x if x == libc::ENOENT && (e.req & libc::O_CREAT as i64) != 0 => "real-output-dir-missing",
                _ => continue,
            };
            stats.fired(k);
        }
    }
    let capped = out.trace.iter().any(|e| e.rule < 0 && matches!(e.call, Call::Read | Call::Write) && e.ret > 0 && e.ret < e.req && !e.path.starts_with('<'));
    if capped && (sc.read_cap > 0 || sc.write_cap > 0) {
        stats.fired(if sc.write_cap > 0 { "write-cap" } else { "read-cap" });
    }
    if sc.stdout != "pipe" {
        stats.fired(if sc.stdout == "closed" { "stdout-closed" } else { "stdout-dev-full" });
    }
    if !fired.is_empty() || real_out_fail || capped || sc.stdout != "pipe" {
        stats.runs_with_fired_fault += 1;
        nontrivial = true;
    }
    let wrote = out.trace.iter().any(|e| e.call == Call::Write && !e.path.starts_with('<') && e.ret > 0);
    if wrote || matches!(reference, Reference::Fails(_)) {
        nontrivial = true;
    }
    if nontrivial {
        stats.distinct_nontrivial.insert(scenario_hash(sc, out));
    }
    stats.distinct_states.insert(fnv(format!("{}|{}{}{}|{:?}|{:?}|{:?}", sc.source_class, parsed.output.is_some(), parsed.eeprom.is_some(), parsed.verbose, sc.stale.len(), fired.iter().map(|e| (e.call.name(), e.errno)).collect::<Vec<_>>(), out.status).as_bytes()));
    // probes
    let built = matches!(reference, Reference::Built { .. });
    let (clen, elen) = match reference {
        Reference::Built { code, eeprom } => (code.len(), eeprom.len()),
        _ => (0, 0),
    };
    stats.probe("default_name_taken_for_hex", built && clen > 0 && parsed.output.is_none());
    stats.probe("default_name_taken_for_eep_hex", built && elen > 0 && parsed.eeprom.is_none());
    stats.probe("output_path_spelled_with_a_trailing_slash", parsed.output.iter().chain(parsed.eeprom.iter()).any(|p| p.ends_with('/') || p.ends_with("/.")));
    stats.probe("both_o_and_e_given", parsed.output.is_some() && parsed.eeprom.is_some());
    stats.probe("o_given_e_defaulted_with_eeprom_data", parsed.output.is_some() && parsed.eeprom.is_none() && elen > 0);
    stats.probe("source_in_subdirectory_with_other_cwd", !sc.cwd.is_empty());
    stats.probe("stale_output_is_a_nearly_right_hex_file", !sc.stale_text.is_empty());
    stats.probe("source_found_only_in_the_standard_include_directory", sc.source_class == "in-standard-includes" && matches!(reference, Reference::Built { .. }));
    stats.probe("source_name_that_is_not_utf8", parsed.source.as_ref().map(|o| has_raw(crate::incmodel::basename(o))).unwrap_or(false));
    stats.probe("directory_or_output_names_that_are_not_utf8", sc.argv.iter().any(|a| has_raw(a)) || has_raw(&sc.cwd));
    stats.probe("explicit_output_name_that_is_not_utf8", parsed.output.as_ref().map(|o| has_raw(crate::incmodel::basename(o))).unwrap_or(false) || parsed.eeprom.as_ref().map(|o| has_raw(crate::incmodel::basename(o))).unwrap_or(false));
    stats.probe("pre_existing_longer_output_overwritten", built && sc.stale.keys().any(|k| out.before.get(k) != out.after.get(k)));
    stats.probe("failing_build_with_pre_existing_outputs", !built && !sc.stale.is_empty());
    stats.probe("fault_on_second_output_after_first_succeeded", {
        let first_close = out.trace.iter().position(|e| e.call == Call::Close && out.trace.iter().any(|w| w.path == e.path && w.call == Call::Write));
        match first_close {
            Some(p) => out.trace[p..].iter().any(|e| (e.rule >= 0 || (e.errno != 0 && e.call != Call::Stat)) && !e.path.starts_with('<')),
            None => false,
        }
    });
    stats.probe("image_over_64k_through_the_cli", clen > 65536);
    stats.probe("shipped_part_file_found_via_installed_directory", out.trace.iter().any(|e| e.path.starts_with("$X/") && e.call == Call::Open && e.ret >= 0));
    stats.probe("stdout_fault_while_reporting_a_failure", !built && (sc.stdout != "pipe" || fired.iter().any(|e| e.path.starts_with('<'))));
    stats.probe("empty_flash_image_with_eeprom_data", built && clen == 0 && elen > 0);
    stats.probe("empty_source", built && clen == 0 && elen == 0);
    stats.probe("local_file_shadows_a_shipped_part_file", sc.source_class == "shadowed-part-file" && built);
    stats.probe("verbose_report_for_a_part_without_sram", sc.source_class == "no-ram-device" && parsed.verbose && built);
    stats.probe("source_given_is_a_symbolic_link", !sc.symlinks.is_empty() && built);
    stats.probe("source_missing", sc.source_class == "missing");
    stats.probe("include_chain_of_100_or_more_files_built_by_the_tool", sc.source_class == "deep-include-chain" && built && out.status == Some(0));
    stats.probe("source_not_utf8_rejected", sc.source_class == "not-utf8" && !built);
    stats.probe("source_is_a_directory", sc.source_class == "source-is-directory");
    stats.probe("usage_error_rejected_visibly", parsed.unknown || parsed.source.is_none());
    stats.probe("standard_includes_located_through_HOME", sc.envmode == "home" && sc.source_class == "part-file" && built);
    stats.probe("neither_HOME_nor_XDG_CONFIG_HOME", sc.envmode == "none");
    if built && out.status != Some(0) && fired.is_empty() && !real_out_fail && sc.stdout == "pipe" && sc.fsize_limit.is_none() && !capped {
        stats.count("exit_nonzero_on_success_recorded_not_demanded", 1);
    }
    stats.probe("fault_on_include_file", fired.iter().any(|e| e.path.ends_with(".inc")));
    if let Some(p) = prof {
        // determinism: identical to the profile up to the first event that was interfered with
        let a: Vec<String> = canon_event_lines(p);
        let b: Vec<String> = canon_event_lines(&out.trace);
        let first = out.trace.iter().position(|e| e.rule != -1).unwrap_or(b.len());
        let n = first.min(a.len()).min(b.len());
        if own_threads(&out.trace) || own_threads(p) {
            stats.count("runs_in_which_the_program_started_threads_of_its_own", 1);
        } else if sc.read_cap == 0 && sc.write_cap == 0 && sc.fsize_limit.is_none() && sc.stdout == "pipe" {
            if a[..n] != b[..n] {
                let at = (0..n).find(|i| a[*i] != b[*i]).unwrap_or(0);
                stats.count("profile_prefix_divergences", 1);
                stats.warnings.push(format!("faulted trace diverges from its profile before the first fault (g={}): event {}: profile [{}] faulted [{}] rules {:?}", g, at, a[at], b[at], sc.rules.iter().map(|r| r.short()).collect::<Vec<_>>()));
            }
            stats.count("profile_prefix_checks", 1);
        }
    }
    if stats.samples.is_empty() || (stats.samples.len() < 3 && (nontrivial && (g % 7 == 0 || !fired.is_empty()))) {
        stats.samples.push(json!({"scenario": sc, "exit_status": out.status, "stdout": text_head(&out.stdout), "reference": match reference { Reference::Built{code, eeprom} => format!("built: {} flash bytes, {} eeprom bytes", code.len(), eeprom.len()), Reference::Fails(e) => format!("fails: {}", e) }, "trace": out.trace.iter().map(event_line).collect::<Vec<_>>()}));
    }
    if let Some(v) = judge(sc, out, reference, root, seed) {
        acc.found += 1;
        (acc.emit)(v);
    }
}

pub fn worker(cfg: &WorkerCfg, emit: &mut dyn FnMut(Violation)) -> Stats {
    let mut stats = Stats::default();
    let env = match Env::new(&format!("cli-w{:02}", cfg.worker)) {
        Ok(e) => e,
        Err(e) => {
            stats.harness_errors.push(e);
            return stats;
        }
    };
    let start = now_secs();
    let total = cfg.digest_only.unwrap_or(cfg.total);
    let mut g = cfg.worker;
    let mut acc = Acc { stats: &mut stats, emit, found: 0, knobs: BTreeSet::new() };
    while g < total {
        if cfg.digest_only.is_none() && now_secs() - start > cfg.deadline_secs {
            acc.stats.count("stopped_by_deadline", 1);
            break;
        }
        if let Some(only) = std::env::var("VERIF_ONLY_G").ok().and_then(|x| x.parse::<u64>().ok()) {
            if g != only {
                g += cfg.nworkers;
                continue;
            }
        }
        let seed = mix(cfg.base_seed, &[0xC18, g]);
        let mut r = Rng::new(seed ^ 0xFA17);
        let mut sc = scenario_shape(&cfg.tier, cfg.base_seed, g);
        acc.stats.first_seed.get_or_insert(seed);
        acc.stats.last_seed = Some(seed);
        // reference needs the files on disk
        env.clear_root();
        if let Err(e) = materialise(&sc, &env.root).and_then(|_| materialise_config(&env.ctl, &sc)) {
            acc.stats.harness_errors.push(e);
            break;
        }
        let reference = reference(&env.root, &sc, &env.xdg, &env.ctl);
        // one stale output in three is not junk but what an earlier run of some version of the
        // tool left: the right records, all of them or all but the last few
        if let Reference::Built { code, eeprom } = &reference {
            let keys: Vec<String> = sc.stale.keys().filter(|k| k.ends_with(".hex") || k.ends_with(".eep")).cloned().collect();
            for k in keys {
                if !r.chance(1, 3) {
                    continue;
                }
                let img = if k.contains("eep") { eeprom } else { code };
                if img.is_empty() || img.len() > 6000 {
                    continue;
                }
                let full = crate::hexread::encode(img);
                let lines: Vec<&str> = full.split_inclusive('\n').collect();
                let text = match r.below(3) {
                    0 => full.clone(),
                    1 => lines[..lines.len() - 1].concat(),
                    _ => lines[..r.usize(lines.len())].concat(),
                };
                sc.stale.remove(&k);
                sc.stale_text.insert(k, text);
            }
        }
        let needs_profile = matches!(sc.config.as_str(), "enum" | "pair" | "fsize");
        let mut budget = 1_000_000u64;
        let mut digest = 0u64;
        let mut odigest = 0u64;
        let mut dump: Vec<String> = vec![format!("{:?}", sc.argv), sc.config.clone()];
        let dumping = std::env::var("VERIF_DIGEST_DUMP").is_ok();
        if needs_profile {
            let mut p = sc.clone();
            p.rules.retain(|r| r.kind == "full-device");
            p.fsize_limit = None;
            p.config = "free".into();
            let prof = match execute(&env, &p, budget) {
                Ok(o) => o,
                Err(e) => {
                    acc.stats.harness_errors.push(e);
                    break;
                }
            };
            account(&mut acc, &p, &prof, &reference, &env.root, seed, g, None);
            budget = 4 * prof.trace.len() as u64 + 64;
            let evs = faultable_events(&prof.trace);
            digest ^= trace_digest(&prof.trace);
            if sc.config == "fsize" {
                let total_out: i64 = prof.trace.iter().filter(|e| e.call == Call::Write && !e.path.starts_with('<') && e.ret > 0).map(|e| e.ret).sum();
                let biggest: i64 = {
                    let mut per: BTreeMap<&str, i64> = BTreeMap::new();
                    for e in prof.trace.iter().filter(|e| e.call == Call::Write && !e.path.starts_with('<') && e.ret > 0) {
                        *per.entry(e.path.as_str()).or_insert(0) += e.ret;
                    }
                    per.values().copied().max().unwrap_or(0)
                };
                if total_out > 0 {
                    sc.fsize_limit = Some(r.below(biggest.max(1) as u64));
                } else {
                    sc.config = "free".into();
                }
            } else if !evs.is_empty() {
                let thorough_enum = cfg.tier == "thorough" && g % 5 == 0 && sc.config == "enum";
                if thorough_enum {
                    // every call x every applicable fault kind
                    for i in &evs {
                        for rules in faults_for_event(&prof.trace, *i) {
                            let mut f = sc.clone();
                            // the permanent rules of the scenario (a simulated full device) stay
                            f.rules.retain(|r| r.kind == "full-device");
                            f.rules.extend(rules);
                            f.config = "enum-all".into();
                            match execute(&env, &f, budget) {
                                Ok(o) => account(&mut acc, &f, &o, &reference, &env.root, seed, g, Some(&prof.trace)),
                                Err(e) => acc.stats.harness_errors.push(e),
                            }
                        }
                    }
                    acc.stats.count("scenarios_with_every_single_fault_enumerated", 1);
                }
                let k = if sc.config == "pair" { 2 } else { 1 };
                for _ in 0..k {
                    // bias towards output-path events: they are few among many reads
                    let outs: Vec<usize> = evs.iter().copied().filter(|i| prof.trace.iter().any(|x| x.path == prof.trace[*i].path && x.call == Call::Write)).collect();
                    let i = if !outs.is_empty() && r.chance(1, 2) { outs[r.usize(outs.len())] } else { evs[r.usize(evs.len())] };
                    let opts = faults_for_event(&prof.trace, i);
                    if !opts.is_empty() {
                        sc.rules.extend(opts[r.usize(opts.len())].clone());
                    }
                }
            }
            let out = match execute(&env, &sc, budget) {
                Ok(o) => o,
                Err(e) => {
                    acc.stats.harness_errors.push(e);
                    break;
                }
            };
            odigest ^= fnv(format!("{:?}|{:?}", out.status, out.after).as_bytes());
            digest ^= trace_digest(&out.trace).rotate_left(1) ^ fnv(format!("{:?}|{:?}", out.status, out.after).as_bytes());
            if dumping {
                dump.push("--- profile".into());
                dump.extend(prof.trace.iter().map(event_line));
                dump.push(format!("--- faulted {:?} rules={:?} fsize={:?}", out.status, sc.rules.iter().map(|r| r.short()).collect::<Vec<_>>(), sc.fsize_limit));
                dump.extend(out.trace.iter().map(event_line));
                dump.extend(out.after.iter().map(|(k, v)| format!("{} {:?}", k, v.as_ref().map(|b| fnv(b)))));
            }
            account(&mut acc, &sc, &out, &reference, &env.root, seed, g, Some(&prof.trace));
        } else {
            let out = match execute(&env, &sc, budget) {
                Ok(o) => o,
                Err(e) => {
                    acc.stats.harness_errors.push(e);
                    break;
                }
            };
            odigest ^= fnv(format!("{:?}|{:?}", out.status, out.after).as_bytes());
            digest ^= trace_digest(&out.trace) ^ fnv(format!("{:?}|{:?}", out.status, out.after).as_bytes());
            if dumping {
                dump.push(format!("--- run {:?}", out.status));
                dump.extend(out.trace.iter().map(event_line));
                dump.extend(out.after.iter().map(|(k, v)| format!("{} {:?}", k, v.as_ref().map(|b| fnv(b)))));
            }
            account(&mut acc, &sc, &out, &reference, &env.root, seed, g, None);
        }
        // configuration knobs the tool asked the environment for: the fault-free scenario once
        // more with each knob set (nothing to do on a tree that reads none)
        let knobs: Vec<String> = std::mem::take(&mut acc.knobs).into_iter().collect();
        if sc.knob.is_none() && cfg.digest_only.is_none() {
            for k in knobs {
                const MENU: &[&str] = &["24", "3", "255", "7", "1", "0", "100", "256", "4096", "20", "true", "yes", "", "-1", "abc", "65536"];
                let mut s2 = sc.clone();
                s2.rules.retain(|r| r.kind == "full-device");
                s2.fsize_limit = None;
                s2.config = "free".into();
                s2.knob = Some((k, MENU[r.usize(MENU.len())].to_string()));
                match execute(&env, &s2, 4_000_000) {
                    Ok(o2) => {
                        acc.stats.fired("knob-set");
                        account(&mut acc, &s2, &o2, &reference, &env.root, seed, g, None);
                        acc.knobs.clear();
                    }
                    Err(e) => acc.stats.harness_errors.push(e),
                }
            }
        }
        acc.stats.digests.insert(g, digest);
        acc.stats.outcome_digests.insert(g, odigest);
        if let Ok(dir) = std::env::var("VERIF_DIGEST_DUMP") {
            let _ = std::fs::create_dir_all(&dir);
            let _ = std::fs::write(format!("{}/{}-{}.txt", dir, cfg.nworkers, g), dump.join("\n"));
        }
        if acc.found >= cfg.max_violations {
            break;
        }
        g += cfg.nworkers;
    }
    stats
}

pub fn replay(scv: &Value) -> Result<Option<Violation>, String> {
    let sc: Scenario = serde_json::from_value(scv.clone()).map_err(|e| e.to_string())?;
    let env = Env::new("cli-w99")?;
    env.clear_root();
    materialise(&sc, &env.root)?;
    materialise_config(&env.ctl, &sc)?;
    let reference = reference(&env.root, &sc, &env.xdg, &env.ctl);
    let mut p = sc.clone();
    p.rules.retain(|r| r.kind == "full-device");
    p.fsize_limit = None;
    let prof = execute(&env, &p, 1_000_000)?;
    let budget = 4 * prof.trace.len() as u64 + 64;
    let out = execute(&env, &sc, budget)?;
    Ok(judge(&sc, &out, &reference, &env.root, 0))
}

pub fn shrink(scv: &Value) -> Vec<Value> {
    let sc: Scenario = match serde_json::from_value(scv.clone()) {
        Ok(s) => s,
        Err(_) => return vec![],
    };
    let mut out = vec![];
    let mut push = |s: Scenario| out.push(serde_json::to_value(s).unwrap());
    if !sc.rules.is_empty() {
        let mut s = sc.clone();
        s.rules.clear();
        push(s);
        for i in 0..sc.rules.len() {
            let mut s = sc.clone();
            s.rules.remove(i);
            push(s);
        }
    }
    if lossy_view(&sc).cwd != sc.cwd || lossy_view(&sc).argv != sc.argv || lossy_view(&sc).files.keys().ne(sc.files.keys()) || lossy_view(&sc).dirs != sc.dirs {
        // plain names instead of names that are not UTF-8: everywhere, then everywhere but in
        // the name of the source and of what is named after it
        let mut s = map_names(&sc, &|x| deraw(x));
        for r in s.rules.iter_mut() {
            r.target = r.target.replace('\u{FFFD}', "a");
        }
        push(s);
        let stem: String = parse_argv(&sc.argv).source.as_ref().and_then(|p| Path::new(crate::incmodel::basename(p)).file_stem().map(|x| x.to_string_lossy().into_owned())).unwrap_or_default();
        if has_raw(&stem) {
            let s = map_names(&sc, &|x| x.split('/').map(|c| if c.starts_with(&stem) { c.to_string() } else { deraw(c) }).collect::<Vec<_>>().join("/"));
            if serde_json::to_value(&s).ok() != serde_json::to_value(&sc).ok() && sc.rules.iter().all(|r| !r.target.contains('\u{FFFD}')) {
                push(s);
            }
        }
    }
    if sc.fsize_limit.is_some() {
        let mut s = sc.clone();
        s.fsize_limit = None;
        push(s);
    }
    if sc.stdout != "pipe" {
        let mut s = sc.clone();
        s.stdout = "pipe".into();
        push(s);
    }
    if sc.read_cap > 0 || sc.write_cap > 0 {
        let mut s = sc.clone();
        s.read_cap = 0;
        s.write_cap = 0;
        push(s);
    }
    for k in sc.stale.keys() {
        let mut s = sc.clone();
        s.stale.remove(k);
        push(s);
    }
    for k in sc.stale_text.keys() {
        let mut s = sc.clone();
        s.stale_text.remove(k);
        push(s);
    }
    // drop options
    let p = parse_argv(&sc.argv);
    let rebuild = |p: &Parsed| -> Vec<String> {
        let mut a = vec![];
        if let Some(s) = &p.source {
            a.push("-s".to_string());
            a.push(s.clone());
        }
        if let Some(s) = &p.output {
            a.push("-o".to_string());
            a.push(s.clone());
        }
        if let Some(s) = &p.eeprom {
            a.push("-e".to_string());
            a.push(s.clone());
        }
        if p.verbose {
            a.push("-v".to_string());
        }
        a
    };
    if p.verbose {
        let mut q = p.clone();
        q.verbose = false;
        let mut s = sc.clone();
        s.argv = rebuild(&q);
        push(s);
    }
    if p.output.is_some() {
        let mut q = p.clone();
        q.output = None;
        let mut s = sc.clone();
        s.argv = rebuild(&q);
        push(s);
    }
    if p.eeprom.is_some() {
        let mut q = p.clone();
        q.eeprom = None;
        let mut s = sc.clone();
        s.argv = rebuild(&q);
        push(s);
    }
    let canon = rebuild(&p);
    if canon != sc.argv {
        let mut s = sc.clone();
        s.argv = canon;
        push(s);
    }
    // drop files other than the source; drop source lines
    let src_keys: BTreeSet<String> = sc.files.keys().cloned().collect();
    for k in &src_keys {
        if sc.files.len() > 1 {
            let mut s = sc.clone();
            s.files.remove(k);
            push(s);
        }
    }
    for (k, t) in &sc.files {
        let lines: Vec<&str> = t.lines().collect();
        if lines.len() > 1 {
            // halves, then single lines (bounded)
            let h = lines.len() / 2;
            for keep in [&lines[..h], &lines[h..]] {
                let mut s = sc.clone();
                s.files.insert(k.clone(), keep.join("\n") + "\n");
                push(s);
            }
            for i in 0..lines.len().min(40) {
                let mut l2 = lines.clone();
                l2.remove(i);
                let mut s = sc.clone();
                s.files.insert(k.clone(), l2.join("\n") + "\n");
                push(s);
            }
        }
    }
    if !sc.symlinks.is_empty() {
        let mut s = sc.clone();
        s.symlinks.clear();
        push(s);
    }
    if sc.hash_seed != 0 {
        let mut s = sc.clone();
        s.hash_seed = 0;
        push(s);
    }
    if sc.config != "min" {
        let mut s = sc.clone();
        s.config = "min".into();
        push(s);
    }
    out
}
