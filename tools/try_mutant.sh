#!/bin/bash
# try_mutant.sh <patch.diff> <ID> [tier]
# Apply a patch in the scratch worktree /tmp/wt-mut, run a check against it (evidence and replay
# files go to /tmp, never into /verif), undo; then re-run every replay file it produced against
# the unchanged /repo: a replay that fails there is a false alarm of the machinery.
set -u
P="$1"; ID="$2"; TIER="${3:-quick}"
WT=/tmp/wt-mut
rm -rf /tmp/mut-replays /tmp/mut-evidence; mkdir -p /tmp/mut-replays /tmp/mut-evidence
cd "$WT" && git checkout -q -- . && git clean -qfd && git apply "$P" || { echo "APPLY-FAILED $P"; exit 3; }
cd /verif && VERIF_REPO="$WT" VERIF_EVIDENCE_DIR=/tmp/mut-evidence VERIF_REPLAYS_DIR=/tmp/mut-replays ./check "$ID" "$TIER" > /tmp/try_mutant.out 2>&1; rc=$?
grep -E "VIOLATION|class:|signature:|HARNESS|simharness: [0-9]+ runs" /tmp/try_mutant.out | cut -c1-260 | head -12
echo "rc=$rc"
cd "$WT" && git checkout -q -- . && git clean -qfd
for f in /tmp/mut-replays/*.json; do
  [ -e "$f" ] || continue
  out=$(cd /verif && VERIF_EVIDENCE_DIR=/tmp/mut-evidence ./check replay "$f" 2>&1); r=$?
  if [ $r -ne 0 ]; then echo "FALSE-ALARM-ON-UNCHANGED-TREE: $f (rc=$r)"; echo "$out" | head -5; fi
done
exit $rc
