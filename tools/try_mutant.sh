#!/bin/bash
# try_mutant.sh <patch.diff> <ID> [tier]
# Apply a patch in a scratch worktree ($VERIF_WT, default /tmp/wt-mut; never /repo), run a check
# against it (evidence and replay files go to /tmp, never into /verif), undo; then re-run every
# replay file it produced against the unchanged /repo: a replay that fails there is a false alarm
# of the machinery.
set -u
VROOT="$(cd "$(dirname "$0")/.." && pwd)"
P="$1"; ID="$2"; TIER="${3:-quick}"
WT="${VERIF_WT:-/tmp/wt-mut}"; TAG=$(basename "$WT")
RP=/tmp/mut-replays-$TAG; EV=/tmp/mut-evidence-$TAG; OUT=/tmp/try_mutant-$TAG.out
[ -d "$WT" ] || git -C /repo worktree add -q --detach "$WT" HEAD || exit 3
rm -rf "$RP" "$EV"; mkdir -p "$RP" "$EV"
# the scratch worktree follows /repo's HEAD (fix commits included)
cd "$WT" && git checkout -q -- . && git clean -qfd && git checkout -q --detach "$(git -C /repo rev-parse HEAD)" && git apply "$P" || { echo "APPLY-FAILED $P"; exit 3; }
cd "$VROOT" && VERIF_REPO="$WT" VERIF_EVIDENCE_DIR="$EV" VERIF_REPLAYS_DIR="$RP" ./check "$ID" "$TIER" > "$OUT" 2>&1; rc=$?
grep -E "VIOLATION|class:|signature:|HARNESS|simharness: [0-9]+ runs" "$OUT" | cut -c1-260 | head -12
echo "rc=$rc"
cd "$WT" && git checkout -q -- . && git clean -qfd
for f in "$RP"/*.json; do
  [ -e "$f" ] || continue
  out=$(cd "$VROOT" && VERIF_EVIDENCE_DIR="$EV" ./check replay "$f" 2>&1); r=$?
  if [ $r -ne 0 ]; then echo "FALSE-ALARM-ON-UNCHANGED-TREE: $f (rc=$r)"; echo "$out" | head -5; fi
done
exit $rc
