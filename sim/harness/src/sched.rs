//! The token scheduler for caller threads (DESIGN.md 3.3) and the extern symbol that the
//! cfg-guarded hooks in /repo call.
//!
//! Simulated threads are real OS threads; exactly one holds the token and runs. At every yield
//! point (an intercepted libc call, or a hook site inside avra_lib) the holder asks the strategy
//! who runs next and, if it is someone else, hands the token over and parks. Every decision is
//! logged; a replay follows the log instead of the strategy.

use crate::rng::Rng;
use std::sync::atomic::{AtomicUsize, Ordering};
use std::sync::{Arc, Condvar, Mutex};

/// fn(site) installed by the multibuild engine while a scheduled run is in progress; 0 = none.
pub static HOOK_SINK: AtomicUsize = AtomicUsize::new(0);

/// Called by avra_lib at its guarded scheduling points (src/verif_hook.rs in /repo).
#[no_mangle]
pub extern "C" fn avra_rs_verif_yield(site: u32) {
    let h = HOOK_SINK.load(Ordering::Acquire);
    if h != 0 && crate::simlibc::active_tid().is_some() {
        let f: fn(u32) = unsafe { std::mem::transmute::<usize, fn(u32)>(h) };
        crate::simlibc::bypass(|| f(site));
    }
}

pub const SITE_OP_BOUNDARY: u32 = 0;

/// wall time without any scheduling progress after which the token holder is taken to be
/// blocked on a lock held by a parked thread
pub const FOREIGN_BLOCK_SECS: f64 = 4.0;

#[derive(Clone, Debug)]
pub enum Strategy {
    /// whole operations, never a switch inside one
    Sequential,
    /// any runnable thread at every point
    Uniform,
    /// switch with probability num/1000
    Sticky(u32),
    /// random priorities with `d` priority-change points among the first `horizon` decisions
    Pct { d: u32, horizon: u32 },
    /// hand over to the next thread (cyclically) at every yield point: with equal scripts the
    /// threads run in lockstep, a few function entries apart - the same code at the same time
    RoundRobin,
    /// follow a recorded decision list
    Replay(Vec<u8>),
}

pub struct State {
    pub current: usize,
    pub parked: Vec<bool>,
    pub finished: Vec<bool>,
    pub foreign_blocked: Vec<bool>,
    pub decisions: Vec<u8>,
    pub strategy: Strategy,
    pub rng: Rng,
    pub event_no: u64,
    pub progress: u64,
    pub switches: u64,
    /// switches by the site class the *outgoing* thread was at
    pub switch_sites: std::collections::BTreeMap<u32, u64>,
    pub prio: Vec<u32>,
    pub change_points: Vec<u64>,
    pub replay_pos: usize,
    pub replay_divergences: u64,
    pub interleaving_hash: u64,
    pub foreign_events: u64,
}

pub struct Sched {
    pub st: Mutex<State>,
    pub cv: Condvar,
    pub n: usize,
}

thread_local! {
    static MY_TID: std::cell::Cell<usize> = const { std::cell::Cell::new(usize::MAX) };
}

static CURRENT_SCHED: Mutex<Option<Arc<Sched>>> = Mutex::new(None);

fn sink(site: u32) {
    let s = CURRENT_SCHED.lock().unwrap_or_else(|e| e.into_inner()).clone();
    if let Some(s) = s {
        let tid = MY_TID.with(|t| t.get());
        if tid != usize::MAX {
            s.yield_point(tid, site);
        }
    }
}

impl Sched {
    pub fn new(n: usize, strategy: Strategy, seed: u64) -> Arc<Sched> {
        let mut rng = Rng::new(seed);
        let mut prio: Vec<u32> = (0..n as u32).map(|i| i + 100).collect();
        rng.shuffle(&mut prio);
        let mut change_points = vec![];
        if let Strategy::Pct { d, horizon } = &strategy {
            for _ in 0..*d {
                change_points.push(rng.below(*horizon as u64 + 1));
            }
            change_points.sort();
        }
        Arc::new(Sched {
            st: Mutex::new(State {
                current: usize::MAX,
                parked: vec![false; n],
                finished: vec![false; n],
                foreign_blocked: vec![false; n],
                decisions: vec![],
                strategy,
                rng,
                event_no: 0,
                progress: 0,
                switches: 0,
                switch_sites: Default::default(),
                prio,
                change_points,
                replay_pos: 0,
                replay_divergences: 0,
                interleaving_hash: 0xcbf29ce484222325,
                foreign_events: 0,
            }),
            cv: Condvar::new(),
            n,
        })
    }

    pub fn install(self: &Arc<Sched>) {
        *CURRENT_SCHED.lock().unwrap_or_else(|e| e.into_inner()) = Some(self.clone());
        HOOK_SINK.store(sink as usize, Ordering::Release);
        crate::simlibc::YIELD_HOOK.store(sink as usize, Ordering::Release);
    }

    pub fn uninstall() {
        HOOK_SINK.store(0, Ordering::Release);
        crate::simlibc::YIELD_HOOK.store(0, Ordering::Release);
        *CURRENT_SCHED.lock().unwrap_or_else(|e| e.into_inner()) = None;
    }

    /// Called by a simulated thread first: parks until it is given the token.
    pub fn enter(&self, tid: usize) {
        MY_TID.with(|t| t.set(tid));
        let mut g = self.st.lock().unwrap_or_else(|e| e.into_inner());
        g.parked[tid] = true;
        self.cv.notify_all();
        while g.current != tid {
            g = self.cv.wait(g).unwrap_or_else(|e| e.into_inner());
        }
        g.parked[tid] = false;
        g.foreign_blocked[tid] = false;
    }

    /// Give the token to the first thread once all have parked (driver thread).
    pub fn start(&self) {
        let mut g = self.st.lock().unwrap_or_else(|e| e.into_inner());
        while !g.parked.iter().all(|p| *p) {
            g = self.cv.wait(g).unwrap_or_else(|e| e.into_inner());
        }
        let next = Self::choose(&mut g, usize::MAX, SITE_OP_BOUNDARY, self.n);
        g.current = next;
        self.cv.notify_all();
    }

    pub fn event_no(&self) -> u64 {
        self.st.lock().unwrap_or_else(|e| e.into_inner()).event_no
    }

    fn runnable(g: &State, n: usize) -> Vec<usize> {
        (0..n).filter(|t| !g.finished[*t] && !g.foreign_blocked[*t]).collect()
    }

    /// The strategy: who runs next. `me` = the thread at the yield point (usize::MAX = nobody).
    fn choose(g: &mut State, me: usize, site: u32, n: usize) -> usize {
        let cands = Self::runnable(g, n);
        if cands.is_empty() {
            return usize::MAX;
        }
        let me_ok = cands.contains(&me);
        let pick = match &g.strategy {
            Strategy::Replay(log) => {
                let want = log.get(g.replay_pos).copied();
                g.replay_pos += 1;
                match want {
                    Some(w) if cands.contains(&(w as usize)) => w as usize,
                    _ => {
                        g.replay_divergences += 1;
                        if me_ok {
                            me
                        } else {
                            cands[0]
                        }
                    }
                }
            }
            Strategy::Sequential => {
                if site != SITE_OP_BOUNDARY && me_ok {
                    me
                } else {
                    let i = g.rng.usize(cands.len());
                    cands[i]
                }
            }
            Strategy::Uniform => {
                let i = g.rng.usize(cands.len());
                cands[i]
            }
            Strategy::RoundRobin => {
                // the next runnable thread after `me`, cyclically
                match cands.iter().find(|t| me != usize::MAX && **t > me) {
                    Some(t) => *t,
                    None => cands[0],
                }
            }
            Strategy::Sticky(p) => {
                let p = *p as u64;
                if me_ok && !g.rng.chance(p, 1000) {
                    me
                } else {
                    let i = g.rng.usize(cands.len());
                    cands[i]
                }
            }
            Strategy::Pct { .. } => {
                let k = g.decisions.len() as u64;
                while let Some(cp) = g.change_points.first().copied() {
                    if cp <= k {
                        g.change_points.remove(0);
                        if me_ok {
                            // the running thread drops below everyone
                            let low = g.prio.iter().copied().min().unwrap_or(1).saturating_sub(1);
                            g.prio[me] = low;
                        }
                    } else {
                        break;
                    }
                }
                *cands.iter().max_by_key(|t| g.prio[**t]).unwrap()
            }
        };
        g.decisions.push(pick as u8);
        g.interleaving_hash = (g.interleaving_hash ^ ((pick as u64) << 32 | site as u64)).wrapping_mul(0x100000001b3);
        pick
    }

    pub fn yield_point(&self, tid: usize, site: u32) {
        let mut g = self.st.lock().unwrap_or_else(|e| e.into_inner());
        g.event_no += 1;
        g.progress += 1;
        if g.current != tid {
            // this thread was declared foreign-blocked and lost the token while it was stuck in
            // a foreign lock; now it has reached a yield point: park like everybody else
            g.foreign_events += 1;
            g.foreign_blocked[tid] = false;
            g.parked[tid] = true;
            // if meanwhile everybody else has finished, nobody is left to hand the token over
            if g.current == usize::MAX || (g.current < self.n && g.finished[g.current]) {
                g.current = tid;
            }
            self.cv.notify_all();
            while g.current != tid {
                g = self.cv.wait(g).unwrap_or_else(|e| e.into_inner());
            }
            g.parked[tid] = false;
            return;
        }
        let next = Self::choose(&mut g, tid, site, self.n);
        if next != tid && next != usize::MAX {
            g.switches += 1;
            *g.switch_sites.entry(site).or_insert(0) += 1;
            g.current = next;
            g.parked[tid] = true;
            self.cv.notify_all();
            while g.current != tid {
                g = self.cv.wait(g).unwrap_or_else(|e| e.into_inner());
            }
            g.parked[tid] = false;
        }
    }

    pub fn finish(&self, tid: usize) {
        let mut g = self.st.lock().unwrap_or_else(|e| e.into_inner());
        g.finished[tid] = true;
        g.progress += 1;
        if g.current == tid {
            let next = Self::choose(&mut g, usize::MAX, SITE_OP_BOUNDARY, self.n);
            g.current = next;
        }
        self.cv.notify_all();
    }

    /// Driver thread: wait for all threads; detect a token holder stuck in a foreign lock.
    /// Wall time decides only *when* this is noticed, never who is chosen.
    pub fn supervise(&self, overall_timeout_secs: f64) -> Result<(), String> {
        let start = std::time::Instant::now();
        let mut last_progress = 0u64;
        let mut last_change = std::time::Instant::now();
        loop {
            let mut g = self.st.lock().unwrap_or_else(|e| e.into_inner());
            if g.finished.iter().all(|f| *f) {
                return Ok(());
            }
            if g.current == usize::MAX || (g.current < self.n && g.finished[g.current]) {
                // the token is with nobody (the last holder finished while the others were
                // blocked on a foreign lock): whoever is parked continues
                if let Some(next) = (0..self.n).find(|t| g.parked[*t] && !g.finished[*t]) {
                    g.foreign_blocked[next] = false;
                    g.current = next;
                    self.cv.notify_all();
                }
            }
            if g.progress != last_progress {
                last_progress = g.progress;
                last_change = std::time::Instant::now();
            } else if last_change.elapsed().as_secs_f64() > (if g.foreign_events > 0 { 0.3 } else { FOREIGN_BLOCK_SECS }) {
                let holder = g.current;
                if holder < self.n && !g.finished[holder] {
                    // the holder neither yields nor finishes: assume it blocks on a lock that a
                    // parked thread holds; let the lowest-numbered parked thread run
                    if let Some(next) = (0..self.n).find(|t| *t != holder && g.parked[*t] && !g.finished[*t]) {
                        g.foreign_blocked[holder] = true;
                        g.foreign_events += 1;
                        g.current = next;
                        g.decisions.push(next as u8);
                        self.cv.notify_all();
                        last_change = std::time::Instant::now();
                    }
                }
            }
            // "no completion" means no scheduling progress for a long time, not a slow episode:
            // code that serialises builds behind a lock is slow here (every conflict costs a
            // detection interval) but legal
            if last_change.elapsed().as_secs_f64() > overall_timeout_secs || start.elapsed().as_secs_f64() > 40.0 * overall_timeout_secs {
                return Err(format!("no completion within {} s (holder {}, progress {})", overall_timeout_secs, g.current, g.progress));
            }
            let (g2, _) = self.cv.wait_timeout(g, std::time::Duration::from_millis(50)).unwrap_or_else(|e| e.into_inner());
            drop(g2);
        }
    }
}

pub fn rle(d: &[u8]) -> Vec<(u8, u32)> {
    let mut out: Vec<(u8, u32)> = vec![];
    for x in d {
        match out.last_mut() {
            Some((t, c)) if *t == *x => *c += 1,
            _ => out.push((*x, 1)),
        }
    }
    out
}

pub fn unrle(r: &[(u8, u32)]) -> Vec<u8> {
    let mut out = vec![];
    for (t, c) in r {
        for _ in 0..*c {
            out.push(*t);
        }
    }
    out
}

// ---------------------------------------------------------------------------------------------
// function-entry yield points (the "fn" build of the harness, see tools/mc_wrap.sh)
// ---------------------------------------------------------------------------------------------
//
// In the fn build the code under test is compiled with -Zinstrument-mcount: every function of
// avra_lib (and of the helper crates it calls) calls `mcount` on entry. That turns every
// function entry - inside the PEG parser of one line, inside Display impls, inside instruction
// encoding - into a potential yield point without touching /repo. To keep episodes short only
// every k-th entry becomes a real yield point; k is drawn per thread from a generator seeded by
// (scheduler seed, thread), so it is the same in a replay.

pub const SITE_FN_ENTRY: u32 = 200;

pub static FN_MEAN: AtomicUsize = AtomicUsize::new(0);

thread_local! {
    static FN_COUNTDOWN: std::cell::Cell<u32> = const { std::cell::Cell::new(u32::MAX) };
    static FN_RNG: std::cell::RefCell<Option<Rng>> = const { std::cell::RefCell::new(None) };
}

/// Arm function-entry yields on this simulated thread.
pub fn fn_yield_arm(seed: u64, tid: usize, mean: u32) {
    FN_RNG.with(|r| *r.borrow_mut() = Some(Rng::new(crate::rng::mix(seed, &[0xF17, tid as u64]))));
    FN_COUNTDOWN.with(|c| c.set(mean));
}

pub fn fn_yield_disarm() {
    FN_COUNTDOWN.with(|c| c.set(u32::MAX));
}

#[cfg(verif_mcount)]
#[no_mangle]
pub extern "C" fn mcount() {
    let c = FN_COUNTDOWN.with(|c| c.get());
    if c == u32::MAX {
        return; // not armed on this thread
    }
    if c > 0 {
        FN_COUNTDOWN.with(|x| x.set(c - 1));
        return;
    }
    if crate::simlibc::active_tid().is_none() {
        return; // inside the seam or the scheduler
    }
    let mean = FN_MEAN.load(Ordering::Relaxed) as u64;
    let next = FN_RNG.with(|r| r.borrow_mut().as_mut().map(|g| g.below(2 * mean + 1) as u32).unwrap_or(u32::MAX - 1));
    FN_COUNTDOWN.with(|x| x.set(u32::MAX)); // no re-entry while yielding
    crate::simlibc::bypass(|| sink(SITE_FN_ENTRY));
    FN_COUNTDOWN.with(|x| x.set(next));
}

pub fn fn_build() -> bool {
    cfg!(verif_mcount)
}
