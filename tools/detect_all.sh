#!/bin/bash
# detect_all.sh <out.jsonl> <mutant-dir> <ID>...   run the named checks (quick) against one seeded change
OUT="$1"; D="$2"; shift 2
for ID in "$@"; do
  res=$(VERIF_MAX_REPORT=2 "$(dirname "$0")/try_mutant.sh" "$D/patch.diff" "$ID" quick 2>&1)
  rc=$(echo "$res" | grep -oE "^rc=[0-9]+" | head -1 | cut -d= -f2)
  sig=$(echo "$res" | grep -E "signature:" | head -2 | sed 's/^ *signature: //' | tr '\n' ';')
  fa=$(echo "$res" | grep -c "FALSE-ALARM")
  runs=$(echo "$res" | grep -oE "simharness: [0-9]+ runs" | head -1)
  python3 - "$OUT" "$D" "$ID" "$rc" "$sig" "$fa" "$runs" <<'PY'
import json,sys
out,d,i,rc,sig,fa,runs=sys.argv[1:8]
open(out,'a').write(json.dumps({"dir":d,"check":i,"rc":int(rc or -1),"signatures":sig,"false_alarm_replays":int(fa),"runs":runs})+"\n")
PY
done
