//! Engine `multibuild` (C17): builds are deterministic and independent of each other
//! (DESIGN.md 5.3).
//!
//! One *episode* = one fresh process (`simharness mb-run`) embedding the library: 1-4 simulated
//! caller threads (real OS threads under the token scheduler of sched.rs), each with a script of
//! builds. Every build's outcome is compared with the outcome of the same build run alone in a
//! fresh process (`simharness ref-one`), under another hash seed and clock origin.

use crate::common::*;
use crate::inctree::{self, Outcome};
use crate::proggen;
use crate::rng::{fnv, mix, Rng};
use crate::sched::{self, Sched, Strategy};
use crate::simlibc::{self, SimState};
use serde::{Deserialize, Serialize};
use serde_json::{json, Value};
use std::collections::{BTreeMap, BTreeSet};
use std::io::Write;
use std::path::PathBuf;
use std::process::{Command, Stdio};

pub const RULE: &str = "A worker generates a corpus from its seed: ~100 programs in leak-detector families (members share a small name pool - labels, .equ, .set, .def, #define, macros, differing only in case where the namespace is case-insensitive - and about half are built to fail because something is absent: a symbol, an alias, a macro, a define, a device, a second .device, an instruction the device forbids, a capacity) and ~20 include trees (the generator of engine inctree, several trees using the same include names from different directories), plus per-thread private trees one of whose include files is rewritten between builds. Every corpus entry is first built alone in two fresh processes under two hash seeds and clock origins (they must agree). An episode is a fresh process with 1-4 caller threads x scripts of builds: concurrent (uniform / sticky / PCT scheduling at every intercepted libc call and hook site), mirror (all threads build the same entries at the same time), sequential (whole-operation permutations) or long histories (30-120 builds of few entries, mostly failing, on one or two threads); a third of the episodes cut one or two builds down with an I/O fault on an include. Every non-faulted build must equal its reference byte for byte (images, sizes, messages, error text), the cwd must stay what it was. Non-trivial: a context switch happened inside a build, or two builds shared a thread; distinct by the hash of (scripts, schedule decision sequence).";

pub const ASSUMPTIONS: &[&str] = &[
    "the reference is the same tree's library run alone in a fresh process (the property is relational: same source, same result)",
    "caller threads are real OS threads, so thread_local!, LazyLock and std locks behave as in a user's program; only the choice of who runs is simulated",
    "yield points: every intercepted libc call (getcwd, statx, open, read, close, ...) and the 24 cfg-guarded hook sites in /repo (build entry, between passes, every parsed line, every pass-1/pass-2 item, macro expansion, .device, every symbol-table accessor - i.e. inside expression evaluation); in the function-entry build of the harness (nightly, -Zinstrument-mcount on the code under test only) additionally about every k-th function entry of avra_lib and its helper crates, k seeded per thread",
    "a token holder that blocks on a foreign lock for 2 s of wall time loses the token to the lowest-numbered parked thread; wall time decides when this is noticed, never who runs",
    "the build hit by an injected hard fault is exempt (engine inctree judges it); every other build of the episode - also one whose read was cut short, which is legal kernel behaviour - is judged",
    "corpus entries on which today's code panics (about 1 in 25: a register number out of range, a number above 64 bits, a missing operand) stay in: the panic payload is their result, compared like an error text; entries whose reference process crashes or hangs are excluded and counted",
];

// ---------------------------------------------------------------------------------------------
// scenario
// ---------------------------------------------------------------------------------------------

#[derive(Serialize, Deserialize, Clone, Debug)]
pub struct Entry {
    /// "str" | "file"
    pub kind: String,
    /// program text (str)
    #[serde(default)]
    pub text: String,
    /// build_file arguments ("$R" = scratch root; relative = relative to the process cwd)
    #[serde(default)]
    pub main: String,
    #[serde(default)]
    pub paths: Vec<String>,
    /// family tag: entries of one family use the same names
    #[serde(default)]
    pub family: String,
    #[serde(default)]
    pub intent: String,
    /// for private trees: rewrite this file with this text before building
    #[serde(default)]
    pub rewrite: Option<(String, String)>,
    /// the process's working directory for this build (scratch-relative) if it is not the
    /// episode's; only in episodes with a single caller thread, which changes directory between
    /// its builds. The reference is the same build alone in a fresh process started there.
    #[serde(default)]
    pub cwd: Option<String>,
}

#[derive(Serialize, Deserialize, Clone, Debug)]
pub struct Op {
    pub entry: String,
    #[serde(default)]
    pub rules: Vec<RuleSpec>,
}

#[derive(Serialize, Deserialize, Clone, Debug)]
pub struct StrategySpec {
    /// "sequential" | "uniform" | "sticky" | "pct" | "replay"
    pub kind: String,
    #[serde(default)]
    pub p: u32,
    #[serde(default)]
    pub d: u32,
}

#[derive(Serialize, Deserialize, Clone, Debug)]
pub struct Scenario {
    pub engine: String,
    pub entries: BTreeMap<String, Entry>,
    /// files of the trees used (scratch-relative path -> text); written before the episode
    pub files: BTreeMap<String, String>,
    pub cwd: String,
    pub threads: Vec<Vec<Op>>,
    pub strategy: StrategySpec,
    /// run-length encoded decision list (thread id, count); Some = replay it
    pub schedule: Option<Vec<(u8, u32)>>,
    pub sched_seed: u64,
    pub hash_seed: u64,
    pub clock: u64,
    pub mode: String,
    /// > 0: the episode runs in the function-entry build of the harness and about every
    /// `fn_mean`-th function entry of the code under test is a yield point
    #[serde(default)]
    pub fn_mean: u32,
}

#[derive(Serialize, Deserialize, Clone, Debug)]
pub struct OpResult {
    pub thread: usize,
    pub index: usize,
    pub entry: String,
    pub invoke: u64,
    pub ret: u64,
    pub outcome: Outcome,
    pub faulted: bool,
    pub cwd_ok: bool,
}

#[derive(Serialize, Deserialize, Clone, Debug, Default)]
pub struct EpisodeOut {
    pub results: Vec<OpResult>,
    pub decisions: Vec<(u8, u32)>,
    pub n_decisions: u64,
    pub switches: u64,
    pub switch_sites: BTreeMap<u32, u64>,
    pub interleaving_hash: u64,
    pub steps: u64,
    pub fired: Vec<String>,
    pub foreign_events: u64,
    pub replay_divergences: u64,
    pub error: Option<String>,
    pub trace_digest: u64,
}

#[derive(Serialize, Deserialize, Clone, Debug)]
pub struct RefOut {
    pub outcome: Outcome,
    /// (call, path) of the build's intercepted calls, for placing faults
    pub events: Vec<(String, String)>,
}

// ---------------------------------------------------------------------------------------------
// child: one reference build in a fresh process
// ---------------------------------------------------------------------------------------------

fn run_entry(e: &Entry, root: &str) -> Result<avra_lib::builder::BuildResult, String> {
    if e.kind == "str" {
        avra_lib::builder::build_str(&e.text).map_err(|x| x.to_string())
    } else {
        let main = PathBuf::from(e.main.replace("$R", root));
        let paths: BTreeSet<PathBuf> = e.paths.iter().map(|p| PathBuf::from(p.replace("$R", root))).collect();
        avra_lib::builder::build_file(main, paths).map_err(|x| x.to_string())
    }
}

fn apply_rewrite(e: &Entry, root: &str) {
    if let Some((f, t)) = &e.rewrite {
        let _ = std::fs::write(PathBuf::from(root).join(f), t.replace("$R", root));
    }
}

/// stdin: {"entry":…, "root":…, "cwd":…, "hash_seed":…, "clock":…} -> stdout: RefOut
pub fn ref_one(input: &str) -> i32 {
    silence_panics();
    let v: Value = match serde_json::from_str(input) {
        Ok(v) => v,
        Err(_) => return 2,
    };
    let e: Entry = match serde_json::from_value(v["entry"].clone()) {
        Ok(e) => e,
        Err(_) => return 2,
    };
    let root = v["root"].as_str().unwrap_or("").to_string();
    let cwd = v["cwd"].as_str().unwrap_or("").to_string();
    if std::env::set_current_dir(PathBuf::from(&root).join(&cwd)).is_err() {
        return 2;
    }
    apply_rewrite(&e, &root);
    let mut st = SimState::new(&root);
    st.hash_seed = v["hash_seed"].as_u64().unwrap_or(0);
    st.clock_origin = v["clock"].as_u64().unwrap_or(1_600_000_000);
    let r2 = root.clone();
    let run = run_simulated(st, move || run_entry(&e, &r2));
    let out = RefOut { outcome: Outcome::from(run.result), events: run.state.trace.iter().filter(|x| !x.path.starts_with('<')).map(|x| (x.call.name().to_string(), x.path.clone())).collect() };
    println!("{}", serde_json::to_string(&out).unwrap());
    0
}

// ---------------------------------------------------------------------------------------------
// child: one episode in a fresh process
// ---------------------------------------------------------------------------------------------

fn strategy_of(sc: &Scenario, total_ops: usize) -> Strategy {
    if let Some(s) = &sc.schedule {
        return Strategy::Replay(sched::unrle(s));
    }
    match sc.strategy.kind.as_str() {
        "sequential" => Strategy::Sequential,
        "lockstep" => Strategy::RoundRobin,
        "sticky" => Strategy::Sticky(sc.strategy.p.max(1)),
        "pct" => Strategy::Pct { d: sc.strategy.d.max(1), horizon: (total_ops as u32) * if sc.fn_mean > 0 { 400 } else { 60 } + 20 },
        _ => Strategy::Uniform,
    }
}

/// stdin: {"scenario":…, "root":…} -> stdout: EpisodeOut
pub fn mb_run(input: &str) -> i32 {
    silence_panics();
    let v: Value = match serde_json::from_str(input) {
        Ok(v) => v,
        Err(_) => return 2,
    };
    let sc: Scenario = match serde_json::from_value(v["scenario"].clone()) {
        Ok(s) => s,
        Err(e) => {
            eprintln!("mb-run: {}", e);
            return 2;
        }
    };
    let root = v["root"].as_str().unwrap_or("").to_string();
    let cwd_abs = PathBuf::from(&root).join(&sc.cwd);
    if std::env::set_current_dir(&cwd_abs).is_err() {
        return 2;
    }
    let cwd_abs = std::env::current_dir().unwrap_or(cwd_abs);
    let n = sc.threads.len();
    let total_ops: usize = sc.threads.iter().map(|t| t.len()).sum();
    if sc.fn_mean > 0 && !sched::fn_build() {
        eprintln!("mb-run: this episode needs the function-entry build of the harness");
        return 4;
    }
    if sc.fn_mean > 0 {
        // A yield point inside the initialiser of a lazily initialised static parks the thread
        // while it holds the `Once`; whoever touches the static next blocks for real, with the
        // token. The device table is therefore initialised before the episode starts (by a
        // build on this unscheduled thread); other such statics of a changed tree are handled
        // by the foreign-lock detector, at its price.
        let _ = std::panic::catch_unwind(|| avra_lib::builder::build_str(".device ATmega48\n    nop\n").is_ok());
    }
    sched::FN_MEAN.store(sc.fn_mean as usize, std::sync::atomic::Ordering::Relaxed);
    let fn_mean = sc.fn_mean;
    let sched_seed = sc.sched_seed;
    let sched = Sched::new(n, strategy_of(&sc, total_ops), sc.sched_seed);
    let mut st = SimState::new(&root);
    st.hash_seed = sc.hash_seed;
    st.clock_origin = sc.clock;
    st.keep_trace = true;
    simlibc::install(st);
    sched.install();
    let results: std::sync::Arc<std::sync::Mutex<Vec<OpResult>>> = Default::default();
    let mut handles = vec![];
    for (tid, script) in sc.threads.iter().enumerate() {
        let script = script.clone();
        let entries = sc.entries.clone();
        let sched = sched.clone();
        let results = results.clone();
        let root = root.clone();
        let cwd_abs = cwd_abs.clone();
        let single = n == 1;
        let ep_cwd = sc.cwd.clone();
        let h = std::thread::Builder::new()
            .name(format!("sim{}", tid))
            .stack_size(64 << 20)
            .spawn(move || {
                simlibc::set_active(Some(tid as u32));
                simlibc::bypass(|| sched.enter(tid));
                if fn_mean > 0 {
                    sched::fn_yield_arm(sched_seed, tid, fn_mean);
                }
                for (index, op) in script.iter().enumerate() {
                    let e = match entries.get(&op.entry) {
                        Some(e) => e.clone(),
                        None => continue,
                    };
                    // a short read is legal kernel behaviour and changes nothing: such a build is judged
                    let faulted = op.rules.iter().any(|r| !(r.call == "read" && (r.action == "limit" || r.action == "shortby")));
                    let invoke = simlibc::bypass(|| {
                        // this operation's fault rules, scoped to this thread
                        let rules: Vec<simlibc::Rule> = op
                            .rules
                            .iter()
                            .filter_map(|r| r.to_rule().ok())
                            .map(|mut r| {
                                r.tid = tid as i32;
                                r
                            })
                            .collect();
                        simlibc::with_state(|st| {
                            st.rules.retain(|r| r.tid != tid as i32);
                            st.rules.extend(rules);
                        });
                        apply_rewrite(&e, &root);
                        if single {
                            // the only caller thread changes directory between its builds
                            let _ = std::env::set_current_dir(PathBuf::from(&root).join(e.cwd.as_deref().unwrap_or(&ep_cwd)));
                        }
                        sched.event_no()
                    });
                    let cwd_abs = if single { simlibc::bypass(|| std::env::current_dir().unwrap_or(cwd_abs.clone())) } else { cwd_abs.clone() };
                    let r2 = root.clone();
                    let res = std::panic::catch_unwind(std::panic::AssertUnwindSafe(|| run_entry(&e, &r2)));
                    let outcome = Outcome::from(match res {
                        Ok(r) => Ok(r),
                        Err(p) => Err(panic_text(p)),
                    });
                    let (ret, cwd_ok) = simlibc::bypass(|| {
                        let cwd_ok = std::env::current_dir().map(|c| c == cwd_abs).unwrap_or(false);
                        (sched.event_no(), cwd_ok)
                    });
                    results.lock().unwrap_or_else(|e| e.into_inner()).push(OpResult { thread: tid, index, entry: op.entry.clone(), invoke, ret, outcome, faulted, cwd_ok });
                    simlibc::bypass(|| sched.yield_point(tid, sched::SITE_OP_BOUNDARY));
                }
                sched::fn_yield_disarm();
                simlibc::bypass(|| sched.finish(tid));
                simlibc::set_active(None);
            })
            .expect("spawn simulated thread");
        handles.push(h);
    }
    sched.start();
    let sup = sched.supervise(60.0);
    let mut out = EpisodeOut::default();
    if let Err(e) = sup {
        out.error = Some(e);
        // threads may be stuck: report what we have and leave
        let g = sched.st.lock().unwrap_or_else(|e| e.into_inner());
        out.decisions = sched::rle(&g.decisions);
        out.results = results.lock().unwrap_or_else(|e| e.into_inner()).clone();
        println!("{}", serde_json::to_string(&out).unwrap());
        let _ = std::io::stdout().flush();
        std::process::exit(0);
    }
    for h in handles {
        let _ = h.join();
    }
    Sched::uninstall();
    let state = simlibc::uninstall();
    {
        let g = sched.st.lock().unwrap_or_else(|e| e.into_inner());
        out.decisions = sched::rle(&g.decisions);
        out.n_decisions = g.decisions.len() as u64;
        out.switches = g.switches;
        out.switch_sites = g.switch_sites.clone();
        out.interleaving_hash = g.interleaving_hash;
        out.foreign_events = g.foreign_events;
        out.replay_divergences = g.replay_divergences;
        out.steps = g.event_no;
    }
    if let Some(st) = state {
        out.fired = st.trace.iter().filter(|e| e.rule >= 0).map(|e| format!("t{} {} {} {}", e.tid, e.call.name(), e.path, errno_name(e.errno))).collect();
        out.trace_digest = trace_digest(&st.trace);
    }
    let mut r = results.lock().unwrap_or_else(|e| e.into_inner()).clone();
    r.sort_by_key(|x| (x.thread, x.index));
    out.results = r;
    println!("{}", serde_json::to_string(&out).unwrap());
    0
}

// ---------------------------------------------------------------------------------------------
// parent side helpers
// ---------------------------------------------------------------------------------------------

fn child_json(sub: &str, input: &Value, timeout: f64) -> Result<Value, String> {
    let exe = std::env::current_exe().map_err(|e| e.to_string())?;
    child_json_with(&exe, sub, input, timeout)
}

fn child_json_with(exe: &std::path::Path, sub: &str, input: &Value, timeout: f64) -> Result<Value, String> {
    let mut child = Command::new(exe).arg(sub).stdin(Stdio::piped()).stdout(Stdio::piped()).stderr(Stdio::null()).spawn().map_err(|e| e.to_string())?;
    {
        let mut si = child.stdin.take().unwrap();
        let _ = si.write_all(serde_json::to_string(input).unwrap().as_bytes());
    }
    let mut out = child.stdout.take().unwrap();
    let reader = std::thread::spawn(move || {
        let mut s = String::new();
        use std::io::Read;
        let _ = out.read_to_string(&mut s);
        s
    });
    let start = now_secs();
    let status = loop {
        match child.try_wait() {
            Ok(Some(s)) => break s,
            Ok(None) => {
                if now_secs() - start > timeout {
                    let _ = child.kill();
                    let _ = child.wait();
                    return Err("timeout".into());
                }
                std::thread::sleep(std::time::Duration::from_micros(200));
            }
            Err(e) => return Err(e.to_string()),
        }
    };
    let s = reader.join().unwrap_or_default();
    if !status.success() {
        use std::os::unix::process::ExitStatusExt;
        return Err(format!("crash: status {:?} signal {:?}", status.code(), status.signal()));
    }
    serde_json::from_str(s.trim()).map_err(|e| format!("bad child output: {}", e))
}

pub struct Corpus {
    pub entries: BTreeMap<String, Entry>,
    pub files: BTreeMap<String, String>,
    /// tree id -> its files (scratch-relative)
    pub tree_files: BTreeMap<String, Vec<String>>,
    pub refs: BTreeMap<String, RefOut>,
    pub families: BTreeMap<String, Vec<String>>,
    /// per thread slot: entry ids of the private tree versions (v0, v1, ...)
    pub private: Vec<Vec<String>>,
}

const CWD: &str = "work";
/// the other working directory of episodes in which the caller changes directory
const ALT_CWD: &str = "alt/work2";
fn incmodel_dirname(p: &str) -> &str {
    crate::incmodel::dirname(p)
}

fn write_files(root: &std::path::Path, files: &BTreeMap<String, String>) -> Result<(), String> {
    let rs = root.to_string_lossy().into_owned();
    for (p, t) in files {
        let fp = root.join(p);
        if let Some(d) = fp.parent() {
            std::fs::create_dir_all(d).map_err(|e| e.to_string())?;
        }
        std::fs::write(&fp, t.replace("$R", &rs)).map_err(|e| format!("{}: {}", p, e))?;
    }
    std::fs::create_dir_all(root.join(CWD)).map_err(|e| e.to_string())
}

fn tree_entry(sc: &inctree::Scenario, family: &str) -> Entry {
    Entry { kind: "file".into(), text: String::new(), main: sc.main.clone(), paths: sc.paths.clone(), family: family.into(), intent: sc.intent.clone(), rewrite: None, cwd: None }
}

pub fn gen_corpus(seed: u64, nprog_fam: usize, ntrees: usize) -> Corpus {
    let mut r = Rng::new(seed);
    let mut c = Corpus { entries: BTreeMap::new(), files: BTreeMap::new(), tree_files: BTreeMap::new(), refs: BTreeMap::new(), families: BTreeMap::new(), private: vec![] };
    for f in 0..nprog_fam {
        let n = r.range(3, 5) as usize;
        let fam = proggen::family(&mut r, n, &format!("f{}_", f));
        let mut ids = vec![];
        for (i, p) in fam.into_iter().enumerate() {
            let id = format!("p{}_{}", f, i);
            c.entries.insert(id.clone(), Entry { kind: "str".into(), text: p.text(), main: String::new(), paths: vec![], family: format!("F{}", f), intent: p.intent.clone(), rewrite: None, cwd: None });
            ids.push(id);
        }
        c.families.insert(format!("F{}", f), ids);
    }
    // trees: groups of three use the same seed for names/layout decisions where possible, so the
    // same include names are looked up from different directories
    for t in 0..ntrees {
        let layout = inctree::Layout { chain_depth: None, base: format!("trees/{}/", t), cwd: Some(CWD.into()), w_prefix: format!("t{}_", t), msg_tag: Some(format!("T{}m", t)) };
        // trees 3k, 3k+1, 3k+2 are one family: same program pool tag through the same seed high bits
        let fam = t / 3;
        let tseed = mix(seed, &[0x7EE, fam as u64]) ^ ((t % 3) as u64).wrapping_mul(0x9E3779B97F4A7C15);
        let sc = inctree::scenario_with(tseed, t as u64, &layout);
        let id = format!("t{}", t);
        c.tree_files.insert(id.clone(), sc.files.keys().cloned().collect());
        for (k, v) in &sc.files {
            c.files.insert(k.clone(), v.clone());
        }
        c.entries.insert(id.clone(), tree_entry(&sc, &format!("T{}", fam)));
        c.families.entry(format!("T{}", fam)).or_default().push(id);
    }
    // deep include chains (many files open at once), one family
    for (j, depth) in [12usize, 17, 9].iter().enumerate() {
        let t = ntrees + j;
        let layout = inctree::Layout { chain_depth: Some(*depth), base: format!("trees/{}/", t), cwd: Some(CWD.into()), w_prefix: format!("t{}_", t), msg_tag: Some(format!("T{}m", t)) };
        let sc = inctree::scenario_with(mix(seed, &[0xC4A1, j as u64]), t as u64, &layout);
        let id = format!("t{}", t);
        c.tree_files.insert(id.clone(), sc.files.keys().cloned().collect());
        for (k, v) in &sc.files {
            c.files.insert(k.clone(), v.clone());
        }
        c.entries.insert(id.clone(), tree_entry(&sc, "TC"));
        c.families.entry("TC".to_string()).or_default().push(id);
    }
    // programs whose meaning depends on the working directory (a relative .includepath or include
    // in a text that has no file of its own), each once for the episode's directory and once for
    // another one that holds a different file of that name, or none
    for k in 0..3usize {
        let name = format!("cwdep_{}.inc", k);
        // (today a relative .includepath in a text is resolved against the *parent* of the
        // working directory; the files are there under either reading, per working directory)
        let (va, vb) = (11 + r.below(100), 120 + r.below(100));
        for d in [format!("{}/cwinc", CWD), "cwinc".to_string()] {
            c.files.insert(format!("{}/{}", d, name), format!(".equ cwk_{} = {}\n", k, va));
        }
        if k != 2 {
            for d in [format!("{}/cwinc", ALT_CWD), format!("{}/cwinc", incmodel_dirname(ALT_CWD))] {
                c.files.insert(format!("{}/{}", d, name), format!(".equ cwk_{} = {}\n    inc r5\n", k, vb));
            }
        }
        c.files.insert(format!("{}/keep.inc", ALT_CWD), "; so that the directory exists\n".to_string());
        let text = if k == 1 {
            format!(".include \"cwinc/{}\"\n    ldi r16, cwk_{}\n", name, k)
        } else {
            format!(".includepath \"cwinc\"\n    nop\n.include \"{}\"\n    ldi r16, cwk_{}\n", name, k)
        };
        for (side, cwd) in [("a", None), ("b", Some(ALT_CWD.to_string()))] {
            let id = format!("cw{}_{}", k, side);
            c.entries.insert(id.clone(), Entry { kind: "str".into(), text: text.clone(), main: String::new(), paths: vec![], family: "CW".into(), intent: "cwd".into(), rewrite: None, cwd: cwd.clone() });
            c.tree_files.insert(id, c.files.keys().filter(|f| f.contains("cwinc/") || f.ends_with("/keep.inc")).cloned().collect());
        }
    }
    // private trees, one per thread slot, with versions that rewrite one included file
    for slot in 0..4usize {
        let layout = inctree::Layout { chain_depth: None, base: format!("priv/{}/", slot), cwd: Some(CWD.into()), w_prefix: format!("v{}_", slot), msg_tag: Some(format!("V{}m", slot)) };
        // a tree that builds and has at least one include is wanted: try a few seeds
        let mut chosen: Option<inctree::Scenario> = None;
        for k in 0..12u64 {
            let mut sc = inctree::scenario_with(mix(seed, &[0x9417, slot as u64, k]), 900 + slot as u64, &layout);
            sc.config = "free".into();
            if sc.files.len() >= 2 && sc.intent == "ok" {
                chosen = Some(sc);
                break;
            }
            if chosen.is_none() && sc.files.len() >= 2 {
                chosen = Some(sc);
            }
        }
        let sc = match chosen {
            Some(s) => s,
            None => continue,
        };
        let id0 = format!("v{}_0", slot);
        c.tree_files.insert(id0.clone(), sc.files.keys().cloned().collect());
        for (k, v) in &sc.files {
            c.files.insert(k.clone(), v.clone());
        }
        // the file to rewrite: an included file (not main)
        let victim = sc.files.keys().find(|k| **k != sc.main_file).cloned();
        let mut ids = vec![];
        if let Some(victim) = victim {
            let orig = sc.files[&victim].clone();
            for ver in 0..3 {
                let mut e = tree_entry(&sc, &format!("V{}", slot));
                let text = if ver == 0 { orig.clone() } else { format!("    ldi r20, {}\n{}", 10 + ver, orig) };
                e.rewrite = Some((victim.clone(), text));
                let id = format!("v{}_{}", slot, ver);
                c.tree_files.insert(id.clone(), sc.files.keys().cloned().collect());
                c.entries.insert(id.clone(), e);
                ids.push(id);
            }
        }
        c.private.push(ids);
    }
    c
}

fn compute_refs(c: &mut Corpus, root: &str, stats: &mut Stats, emit: &mut dyn FnMut(Violation), seed: u64) {
    let ids: Vec<String> = c.entries.keys().cloned().collect();
    for id in ids {
        let e = c.entries[&id].clone();
        let ecwd = e.cwd.clone().unwrap_or_else(|| CWD.to_string());
        let a = child_json("ref-one", &json!({"entry": e, "root": root, "cwd": ecwd, "hash_seed": 0xA11CEu64, "clock": 1_600_000_000u64}), 60.0);
        let b = child_json("ref-one", &json!({"entry": e, "root": root, "cwd": ecwd, "hash_seed": 0xB0B0B0B0B0u64 ^ seed, "clock": 1_900_000_000u64}), 60.0);
        stats.count("reference_processes", 2);
        match (a, b) {
            (Ok(a), Ok(b)) => {
                let (a, b): (RefOut, RefOut) = match (serde_json::from_value(a), serde_json::from_value(b)) {
                    (Ok(a), Ok(b)) => (a, b),
                    _ => {
                        stats.harness_errors.push("bad ref-one output".into());
                        continue;
                    }
                };
                if matches!(a.outcome, Outcome::Panic(_)) {
                    // that it panics is a C16 matter; that it does the same in every history
                    // and next to every other build is this property's
                    stats.count("corpus_entries_that_panic_alone", 1);
                }
                if a.outcome != b.outcome {
                    // the hash-order / time clause of the property, before any scheduling
                    emit(Violation {
                        property: "C17".into(),
                        engine: "multibuild".into(),
                        class: "alone-differs-between-hash-seeds".into(),
                        signature: format!("class=alone-differs-between-hash-seeds kind={}", e.kind),
                        seed,
                        expected: "assembling the same source always yields the same result regardless of hash-map iteration order (two fresh processes, two hash seeds and clock origins)".into(),
                        observed: json!({"seed_a": a.outcome.short(), "seed_b": b.outcome.short()}),
                        scenario: serde_json::to_value(single_entry_scenario(c, &id)).unwrap(),
                    });
                    stats.count("violations_at_reference_stage", 1);
                }
                c.refs.insert(id.clone(), a);
            }
            (Err(x), _) | (_, Err(x)) => {
                if x.starts_with("crash") || x == "timeout" {
                    stats.exclude("corpus entry crashes or hangs in isolation (a C16 matter)");
                } else {
                    stats.harness_errors.push(format!("ref-one {}: {}", id, x));
                }
                c.entries.remove(&id);
            }
        }
    }
    // restore version 0 of the private files
    for ids in &c.private {
        if let Some(id0) = ids.first() {
            if let Some(e) = c.entries.get(id0) {
                apply_rewrite(e, root);
            }
        }
    }
    c.private = c.private.iter().map(|ids| ids.iter().filter(|i| c.entries.contains_key(*i)).cloned().collect()).collect();
}

fn single_entry_scenario(c: &Corpus, id: &str) -> Scenario {
    let mut entries = BTreeMap::new();
    entries.insert(id.to_string(), c.entries[id].clone());
    let mut files = BTreeMap::new();
    if let Some(fs) = c.tree_files.get(id) {
        for f in fs {
            files.insert(f.clone(), c.files[f].clone());
        }
    }
    Scenario {
        engine: "multibuild".into(),
        entries,
        files,
        cwd: CWD.into(),
        threads: vec![vec![Op { entry: id.to_string(), rules: vec![] }]],
        strategy: StrategySpec { kind: "sequential".into(), p: 0, d: 0 },
        schedule: None,
        sched_seed: 0,
        hash_seed: 1,
        clock: 1_700_000_000,
        mode: "alone".into(),
        fn_mean: 0,
    }
}

/// Draw an episode over the corpus.
pub fn gen_episode(c: &Corpus, seed: u64, fn_available: bool) -> Scenario {
    let mut r = Rng::new(seed);
    let all: Vec<&String> = c.entries.keys().filter(|k| !k.starts_with('v') && !k.starts_with("cw")).collect();
    let cw: Vec<&String> = c.entries.keys().filter(|k| k.starts_with("cw")).collect();
    let fams: Vec<&String> = c.families.keys().collect();
    let mode = match r.below(20) {
        0..=8 => "concurrent",
        9 | 10 => "mirror",
        11..=13 => "sequential",
        14 if !cw.is_empty() => "cwd",
        _ => "long",
    };
    let mut threads: Vec<Vec<Op>> = vec![];
    let pick_from_family = |r: &mut Rng, fam: &str| -> Option<String> {
        let ids: Vec<&String> = c.families.get(fam)?.iter().filter(|i| c.entries.contains_key(*i)).collect();
        if ids.is_empty() {
            None
        } else {
            Some(ids[r.usize(ids.len())].clone())
        }
    };
    let strategy;
    if mode == "cwd" {
        // one caller thread that changes its working directory between builds: programs whose
        // meaning depends on it, mixed with others
        let len = r.range(3, 10) as usize;
        let mut script = vec![];
        for _ in 0..len {
            let id = if r.chance(3, 4) { cw[r.usize(cw.len())].clone() } else { all[r.usize(all.len())].clone() };
            script.push(Op { entry: id, rules: vec![] });
        }
        threads.push(script);
        strategy = StrategySpec { kind: "sequential".into(), p: 0, d: 0 };
    } else if mode == "long" {
        let nt = if r.chance(1, 3) { 2 } else { 1 };
        // few entries, mostly failing, repeated; good builds in between and at the end
        let failing: Vec<&String> = all.iter().copied().filter(|k| c.refs.get(*k).map(|x| x.outcome.fails()).unwrap_or(false)).collect();
        let good: Vec<&String> = all.iter().copied().filter(|k| c.refs.get(*k).map(|x| !x.outcome.fails()).unwrap_or(false)).collect();
        for _ in 0..nt {
            let len = r.range(30, 120) as usize;
            let nsub = r.range(1, 3) as usize;
            let sub: Vec<String> = (0..nsub).filter_map(|_| if failing.is_empty() { None } else { Some(failing[r.usize(failing.len())].clone()) }).collect();
            let gsub: Vec<String> = (0..2).filter_map(|_| if good.is_empty() { None } else { Some(good[r.usize(good.len())].clone()) }).collect();
            let mut script = vec![];
            for i in 0..len {
                let use_good = gsub.len() > 0 && (i + 1 == len || r.chance(1, 9));
                let id = if use_good || sub.is_empty() { gsub.get(r.usize(gsub.len().max(1))).cloned() } else { Some(sub[r.usize(sub.len())].clone()) };
                if let Some(id) = id {
                    script.push(Op { entry: id, rules: vec![] });
                }
            }
            // finish with every good entry of the families touched
            for g in &gsub {
                script.push(Op { entry: g.clone(), rules: vec![] });
            }
            threads.push(script);
        }
        strategy = if nt == 1 { StrategySpec { kind: "sequential".into(), p: 0, d: 0 } } else { StrategySpec { kind: "sticky".into(), p: 20, d: 0 } };
    } else if mode == "mirror" {
        // every thread builds the same few entries in the same order at the same time: the same
        // files open, the same names evaluated, the same macros recorded - maximal overlap
        let nt = r.range(2, 4) as usize;
        let fam = fams[r.usize(fams.len())].clone();
        let n = r.range(1, 3) as usize;
        let script: Vec<Op> = (0..n).filter_map(|_| pick_from_family(&mut r, &fam)).map(|id| Op { entry: id, rules: vec![] }).collect();
        for _ in 0..nt {
            threads.push(script.clone());
        }
        strategy = match r.below(4) {
            0 => StrategySpec { kind: "uniform".into(), p: 0, d: 0 },
            1 => StrategySpec { kind: "sticky".into(), p: 300, d: 0 },
            2 => StrategySpec { kind: "sticky".into(), p: 100, d: 0 },
            _ => StrategySpec { kind: "pct".into(), p: 0, d: 3 },
        };
    } else {
        let nt = r.range(1, 4) as usize;
        // one or two focus families: members are paired on one thread back to back and on
        // different threads at the same time
        let focus: Vec<String> = (0..r.range(1, 2)).map(|_| fams[r.usize(fams.len())].clone()).collect();
        for t in 0..nt {
            let len = r.range(1, 6) as usize;
            let mut script = vec![];
            for _ in 0..len {
                let id = match r.below(10) {
                    0..=5 => {
                        let f = focus[r.usize(focus.len())].clone();
                        pick_from_family(&mut r, &f)
                    }
                    6 => c.private.get(t).and_then(|v| if v.is_empty() { None } else { Some(v[r.usize(v.len())].clone()) }),
                    _ => Some(all[r.usize(all.len())].clone()),
                };
                if let Some(id) = id.or_else(|| Some(all[r.usize(all.len())].clone())) {
                    script.push(Op { entry: id, rules: vec![] });
                }
            }
            threads.push(script);
        }
        strategy = if mode == "sequential" {
            StrategySpec { kind: "sequential".into(), p: 0, d: 0 }
        } else {
            match r.below(8) {
                0 | 1 => StrategySpec { kind: "uniform".into(), p: 0, d: 0 },
                2 => StrategySpec { kind: "sticky".into(), p: 20, d: 0 },
                3 => StrategySpec { kind: "sticky".into(), p: 100, d: 0 },
                4 => StrategySpec { kind: "sticky".into(), p: 300, d: 0 },
                5 => StrategySpec { kind: "pct".into(), p: 0, d: 1 },
                6 => StrategySpec { kind: "pct".into(), p: 0, d: 2 },
                _ => StrategySpec { kind: "pct".into(), p: 0, d: 3 },
            }
        };
        // a third of the episodes: cut one or two builds down with an I/O fault on an include
        if r.chance(1, 3) {
            for _ in 0..r.range(1, 2) {
                let t = r.usize(threads.len());
                if threads[t].is_empty() {
                    continue;
                }
                let i = r.usize(threads[t].len());
                let id = threads[t][i].entry.clone();
                if let Some(rf) = c.refs.get(&id) {
                    let cands: Vec<(usize, &(String, String))> = rf.events.iter().enumerate().filter(|(_, (call, _))| call == "open" || call == "read").collect();
                    if !cands.is_empty() {
                        let (k, (call, path)) = cands[r.usize(cands.len())];
                        let nth = rf.events[..k].iter().filter(|(c2, p2)| c2 == call && p2 == path).count() as i64;
                        let rule = if call == "open" {
                            let e = ["ENOENT", "EACCES", "EMFILE", "EIO"][r.usize(4)];
                            RuleSpec::errno("open", path, nth, e, if e == "ENOENT" { "vanish" } else { "open-fail" })
                        } else if r.chance(1, 3) {
                            // the kernel hands over fewer bytes than asked for: nothing may change
                            RuleSpec::limit("read", path, nth, [1usize, 7, 64][r.usize(3)], "read-short")
                        } else {
                            RuleSpec::errno("read", path, nth, "EIO", "read-fail")
                        };
                        threads[t][i].rules.push(rule);
                    }
                }
            }
        }
    }
    // keep only what is used
    let used: BTreeSet<String> = threads.iter().flatten().map(|o| o.entry.clone()).collect();
    let mut entries = BTreeMap::new();
    let mut files = BTreeMap::new();
    for id in &used {
        if let Some(e) = c.entries.get(id) {
            entries.insert(id.clone(), e.clone());
        }
        if let Some(fs) = c.tree_files.get(id) {
            for f in fs {
                files.insert(f.clone(), c.files[f].clone());
            }
        }
    }
    // a share of the overlapping episodes runs in the function-entry build (if there is one)
    let fn_mean = if fn_available && threads.len() >= 2 && matches!(mode, "concurrent" | "mirror") && r.chance(1, 3) { [2u32, 6, 20, 60][r.usize(4)] } else { 0 };
    // lockstep: every thread builds the same thing and the token goes round at every (about
    // k-th) function entry - two threads are inside the same short function at the same time
    let lockstep = fn_available && mode == "mirror" && threads.len() >= 2 && threads[0].len() <= 2 && r.chance(1, 6);
    let fn_mean = if lockstep { [1u32, 2, 3, 5][r.usize(4)] } else { fn_mean };
    let strategy = if lockstep {
        StrategySpec { kind: "lockstep".into(), p: 0, d: 0 }
    } else if fn_mean > 0 {
        // few, well-placed switches: a hand-over costs far more than a function entry
        match r.below(3) {
            0 => StrategySpec { kind: "sticky".into(), p: 20, d: 0 },
            1 => StrategySpec { kind: "sticky".into(), p: 50, d: 0 },
            _ => StrategySpec { kind: "pct".into(), p: 0, d: 3 },
        }
    } else {
        strategy
    };
    Scenario { engine: "multibuild".into(), entries, files, cwd: CWD.into(), threads, strategy, schedule: None, sched_seed: r.next_u64(), hash_seed: r.next_u64(), clock: 1_500_000_000 + r.below(500_000_000), mode: mode.into(), fn_mean }
}

fn judge_episode(sc: &Scenario, out: &EpisodeOut, refs: &BTreeMap<String, RefOut>, seed: u64) -> Option<Violation> {
    let mk = |class: &str, expected: &str, observed: Value, sched: Option<Vec<(u8, u32)>>| -> Violation {
        let mut s2 = sc.clone();
        if s2.schedule.is_none() {
            s2.schedule = sched;
        }
        Violation {
            property: "C17".into(),
            engine: "multibuild".into(),
            class: class.into(),
            signature: format!("class={} mode={}{} threads={}", class, sc.mode, if sc.fn_mean > 0 { "+fn" } else { "" }, sc.threads.len()),
            seed,
            expected: expected.into(),
            observed,
            scenario: serde_json::to_value(s2).unwrap(),
        }
    };
    if let Some(e) = &out.error {
        return Some(mk("episode-did-not-complete", "every build returns", json!({"error": e, "results_so_far": out.results.len()}), Some(out.decisions.clone())));
    }
    let expected_ops: usize = sc.threads.iter().map(|t| t.iter().filter(|o| sc.entries.contains_key(&o.entry)).count()).sum();
    if out.results.len() != expected_ops {
        return Some(mk("episode-did-not-complete", "every build returns", json!({"results": out.results.len(), "expected": expected_ops}), Some(out.decisions.clone())));
    }
    for r in &out.results {
        if !r.cwd_ok {
            return Some(mk("cwd-changed", "a build leaves the process working directory as it was", json!({"thread": r.thread, "index": r.index, "entry": r.entry}), Some(out.decisions.clone())));
        }
        if r.faulted {
            continue;
        }
        let rf = match refs.get(&r.entry) {
            Some(x) => x,
            None => continue,
        };
        if r.outcome != rf.outcome {
            // the history that led here, for the reader
            let hist: Vec<String> = out.results.iter().filter(|x| x.invoke <= r.ret).map(|x| format!("t{}#{} {} [{}..{}] {}{}", x.thread, x.index, x.entry, x.invoke, x.ret, if x.outcome.fails() { "fails" } else { "builds" }, if x.faulted { " (faulted)" } else { "" })).collect();
            return Some(mk(
                "differs-from-the-same-build-alone",
                "every build equals the same build run alone in a fresh process: images, sizes, messages or error text",
                json!({"thread": r.thread, "index": r.index, "entry": r.entry, "in_history": r.outcome.short(), "alone": rf.outcome.short(), "history": hist, "switches": out.switches, "fired": out.fired}),
                Some(out.decisions.clone()),
            ));
        }
    }
    None
}

/// The function-entry build of the harness, if the check script could build it.
pub fn fn_bin() -> Option<PathBuf> {
    let p = PathBuf::from(std::env::var("VERIF_MC_BIN").ok()?);
    if p.exists() {
        Some(p)
    } else {
        None
    }
}

fn run_episode(sc: &Scenario, root: &str) -> Result<EpisodeOut, String> {
    if sc.fn_mean > 0 {
        let bin = fn_bin().ok_or_else(|| "the scenario needs the function-entry build of the harness (VERIF_MC_BIN), which is not available".to_string())?;
        let v = child_json_with(&bin, "mb-run", &json!({"scenario": sc, "root": root}), 2700.0)?;
        return serde_json::from_value(v).map_err(|e| e.to_string());
    }
    let v = child_json("mb-run", &json!({"scenario": sc, "root": root}), 2700.0)?;
    serde_json::from_value(v).map_err(|e| e.to_string())
}

pub fn worker(cfg: &WorkerCfg, emit: &mut dyn FnMut(Violation)) -> Stats {
    let mut stats = Stats::default();
    let scratch = match Scratch::new(&format!("mbuild-w{:02}", cfg.worker)) {
        Ok(s) => s,
        Err(e) => {
            stats.harness_errors.push(e.to_string());
            return stats;
        }
    };
    let root = scratch.root_str();
    let start = now_secs();
    let total = cfg.digest_only.unwrap_or(cfg.total);
    let mut found = 0usize;
    let mut corpus: Option<Corpus> = None;
    let mut corpus_gen = u64::MAX;
    // one corpus serves a contiguous block of run indices; blocks are dealt round-robin to the
    // workers, so the episode of a run index does not depend on the process layout
    let per_corpus: u64 = if cfg.digest_only.is_some() { 8 } else { ((cfg.total + cfg.nworkers - 1) / cfg.nworkers).clamp(50, 1500) };
    let mut g = 0u64;
    while g < total {
        if (g / per_corpus) % cfg.nworkers != cfg.worker {
            g += 1;
            continue;
        }
        if cfg.digest_only.is_none() && now_secs() - start > cfg.deadline_secs {
            stats.count("stopped_by_deadline", 1);
            break;
        }
        // the corpus is a function of (base seed, corpus generation), not of the worker: the
        // same global run index means the same episode in every process layout
        let this_gen = g / per_corpus;
        if corpus_gen != this_gen {
            scratch.clear();
            let cseed = mix(cfg.base_seed, &[0xC17C, this_gen]);
            let (nf, nt) = if cfg.digest_only.is_some() { (8, 6) } else { (28, 21) };
            let mut c = gen_corpus(cseed, nf, nt);
            if let Err(e) = write_files(&scratch.root, &c.files) {
                stats.harness_errors.push(e);
                break;
            }
            let mut emit2 = |v: Violation| {
                found += 1;
                emit(v)
            };
            compute_refs(&mut c, &root, &mut stats, &mut emit2, cseed);
            stats.count("corpus_entries", c.entries.len() as u64);
            stats.count("corpora", 1);
            corpus = Some(c);
            corpus_gen = this_gen;
        }
        let c = corpus.as_ref().unwrap();
        let seed = mix(cfg.base_seed, &[0xC17, g]);
        stats.first_seed.get_or_insert(seed);
        stats.last_seed = Some(seed);
        let sc = gen_episode(c, seed, fn_bin().is_some());
        // private files back to version 0
        for ids in &c.private {
            if let Some(id0) = ids.first() {
                if let Some(e) = c.entries.get(id0) {
                    apply_rewrite(e, &root);
                }
            }
        }
        let out = match run_episode(&sc, &root) {
            Ok(o) => o,
            Err(e) => {
                if e.starts_with("crash") || e == "timeout" {
                    found += 1;
                    emit(Violation {
                        property: "C17".into(),
                        engine: "multibuild".into(),
                        class: "crash-or-hang-in-history".into(),
                        signature: format!("class=crash-or-hang-in-history mode={}", sc.mode),
                        seed,
                        expected: "entries that build or fail cleanly alone do so in every history".into(),
                        observed: json!({"what": e}),
                        scenario: serde_json::to_value(&sc).unwrap(),
                    });
                } else {
                    stats.harness_errors.push(format!("mb-run: {}", e));
                }
                g += 1;
                continue;
            }
        };
        stats.runs += 1;
        stats.steps += out.steps;
        stats.count("builds", out.results.len() as u64);
        for f in &out.fired {
            let kind = if f.contains(" open ") { if f.ends_with("ENOENT") { "vanish" } else { "open-fail" } } else if f.ends_with(" EIO") { "read-fail" } else { "read-short" };
            stats.fired(kind);
        }
        if !out.fired.is_empty() {
            stats.runs_with_fired_fault += 1;
        } else {
            stats.fault_free_runs += 1;
        }
        // probes
        let sw = |lo: u32, hi: u32| -> bool { out.switch_sites.iter().any(|(s, n)| *s >= lo && *s <= hi && *n > 0) };
        stats.probe("context_switch_inside_parse", sw(7, 7) || sw(10, 10));
        stats.probe("context_switch_between_passes", sw(3, 6));
        stats.probe("context_switch_inside_pass_1_or_2", sw(8, 9));
        stats.probe("context_switch_inside_macro_expansion", sw(12, 12));
        stats.probe("context_switch_inside_expression_evaluation_or_symbol_access", sw(20, 31));
        stats.probe("context_switch_at_a_libc_call", sw(100, 199));
        if fn_bin().is_some() {
            stats.probe("context_switch_at_a_function_entry_of_the_code_under_test", sw(200, 200));
        }
        if sc.fn_mean > 0 {
            stats.count("episodes_in_the_function_entry_build", 1);
        }
        let overlap = out.results.iter().any(|a| out.results.iter().any(|b| a.thread != b.thread && a.invoke < b.ret && b.invoke < a.ret && sc.entries.get(&a.entry).map(|e| &e.family) == sc.entries.get(&b.entry).map(|e| &e.family)));
        stats.probe("two_builds_of_one_family_overlapping_in_time", overlap);
        let after_fail = out.results.iter().any(|a| a.index > 0 && out.results.iter().any(|b| b.thread == a.thread && b.index + 1 == a.index && b.outcome.fails()));
        stats.probe("build_after_a_failed_build_on_the_same_thread", after_fail);
        let after_fault = out.results.iter().any(|a| a.index > 0 && out.results.iter().any(|b| b.thread == a.thread && b.index + 1 == a.index && b.faulted));
        stats.probe("build_after_a_fault_killed_build", after_fault);
        let first_dev = out.results.iter().filter(|x| sc.entries.get(&x.entry).map(|e| e.text.contains(".device") || !e.main.is_empty()).unwrap_or(false)).min_by_key(|x| x.invoke).map(|x| x.thread);
        stats.probe("devices_table_first_touched_by_a_thread_other_than_0", matches!(first_dev, Some(t) if t != 0));
        let stale = out.results.iter().any(|a| a.entry.starts_with('v') && !a.entry.ends_with("_0"));
        stats.probe("include_file_rewritten_then_rebuilt", stale);
        stats.probe("three_or_more_hash_seeds_in_one_process", sc.threads.len() >= 3);
        stats.probe("history_of_30_or_more_builds_on_one_thread", sc.threads.iter().any(|t| t.len() >= 30));
        stats.probe("failing_build_repeated_10_times_or_more", {
            let mut m: BTreeMap<&str, usize> = BTreeMap::new();
            for x in &out.results {
                if x.outcome.fails() {
                    *m.entry(x.entry.as_str()).or_insert(0) += 1;
                }
            }
            m.values().any(|n| *n >= 10)
        });
        if out.foreign_events > 0 {
            stats.count("foreign_lock_events", out.foreign_events);
        }
        let shared_thread = sc.threads.iter().any(|t| t.len() >= 2);
        let inside_switch = out.switch_sites.iter().any(|(s, n)| *s != sched::SITE_OP_BOUNDARY && *n > 0);
        let hist_hash = fnv(format!("{:?}", sc.threads.iter().map(|t| t.iter().map(|o| (&o.entry, o.rules.len())).collect::<Vec<_>>()).collect::<Vec<_>>()).as_bytes());
        if shared_thread || inside_switch {
            stats.distinct_nontrivial.insert(hist_hash ^ out.interleaving_hash.rotate_left(17));
        }
        stats.distinct_states.insert(out.interleaving_hash);
        stats.count("scheduling_decisions", out.n_decisions);
        stats.count("context_switches", out.switches);
        *stats.counters.entry(format!("episodes_{}", sc.mode)).or_insert(0) += 1;
        *stats.counters.entry(format!("strategy_{}{}", sc.strategy.kind, if sc.strategy.kind == "sticky" { format!("_{}", sc.strategy.p) } else if sc.strategy.kind == "pct" { format!("_{}", sc.strategy.d) } else { String::new() })).or_insert(0) += 1;
        // the digest covers the schedule, the event log and every outcome
        let outcomes: Vec<String> = out.results.iter().map(|x| format!("{}:{}:{}", x.thread, x.entry, x.outcome.short().replace(&root, "$R"))).collect();
        stats.outcome_digests.insert(g, fnv(format!("{:?}", outcomes).as_bytes()));
        if out.foreign_events > 0 {
            // a thread blocked on a lock of the code under test and the token was moved by the
            // wall-clock detector: the schedule of this episode is not a function of the seed;
            // only its outcomes are compared between layouts
            stats.digests.insert(g, fnv(format!("{:?}", outcomes).as_bytes()));
            stats.count("episodes_with_foreign_lock_recovery", 1);
        } else {
            stats.digests.insert(g, out.interleaving_hash ^ out.trace_digest.rotate_left(3) ^ fnv(format!("{:?}", outcomes).as_bytes()));
        }
        if stats.samples.is_empty() || (stats.samples.len() < 3 && (inside_switch && g % 11 == 0)) {
            let mut small = sc.clone();
            small.files = small.files.into_iter().map(|(k, v)| (k, if v.len() > 300 { format!("{}...", &v[..v.char_indices().take_while(|(i, _)| *i < 300).last().map(|(i, c)| i + c.len_utf8()).unwrap_or(0)]) } else { v })).collect();
            for e in small.entries.values_mut() {
                if e.text.len() > 300 {
                    let cut = e.text.char_indices().take_while(|(i, _)| *i < 300).last().map(|(i, c)| i + c.len_utf8()).unwrap_or(0);
                    e.text = format!("{}...", &e.text[..cut]);
                }
            }
            stats.samples.push(json!({"scenario": small, "schedule_rle": out.decisions.iter().take(60).collect::<Vec<_>>(), "switches": out.switches, "history": out.results.iter().map(|x| format!("t{}#{} {} [{}..{}] {}", x.thread, x.index, x.entry, x.invoke, x.ret, x.outcome.short().chars().take(80).collect::<String>())).collect::<Vec<_>>()}));
        }
        if let Some(v) = judge_episode(&sc, &out, &c.refs, seed) {
            found += 1;
            emit(v);
        }
        if found >= cfg.max_violations {
            break;
        }
        g += 1;
    }
    stats
}

/// Replay: materialise the files, recompute the references in fresh processes (they belong to
/// the tree under test, not to the replay file), run the episode, judge.
pub fn replay(scv: &Value) -> Result<Option<Violation>, String> {
    let sc: Scenario = serde_json::from_value(scv.clone()).map_err(|e| e.to_string())?;
    let scratch = Scratch::new("mbuild-w99").map_err(|e| e.to_string())?;
    let root = scratch.root_str();
    write_files(&scratch.root, &sc.files)?;
    let mut refs: BTreeMap<String, RefOut> = BTreeMap::new();
    let mut first: Option<Violation> = None;
    for (id, e) in &sc.entries {
        let ecwd = e.cwd.clone().unwrap_or_else(|| sc.cwd.clone());
        let a = child_json("ref-one", &json!({"entry": e, "root": root, "cwd": ecwd, "hash_seed": 0xA11CEu64, "clock": 1_600_000_000u64}), 60.0);
        let b = child_json("ref-one", &json!({"entry": e, "root": root, "cwd": ecwd, "hash_seed": 0xB0B0B0B0B0u64, "clock": 1_900_000_000u64}), 60.0);
        if let (Ok(a), Ok(b)) = (a, b) {
            if let (Ok(a), Ok(b)) = (serde_json::from_value::<RefOut>(a), serde_json::from_value::<RefOut>(b)) {
                if a.outcome != b.outcome && first.is_none() {
                    first = Some(Violation {
                        property: "C17".into(),
                        engine: "multibuild".into(),
                        class: "alone-differs-between-hash-seeds".into(),
                        signature: format!("class=alone-differs-between-hash-seeds kind={}", e.kind),
                        seed: 0,
                        expected: "assembling the same source always yields the same result regardless of hash-map iteration order (two fresh processes, two hash seeds and clock origins)".into(),
                        observed: json!({"seed_a": a.outcome.short(), "seed_b": b.outcome.short()}),
                        scenario: scv.clone(),
                    });
                }
                refs.insert(id.clone(), a);
            }
        }
    }
    if first.is_some() {
        return Ok(first);
    }
    // private files start at version 0
    for (id, e) in &sc.entries {
        if id.ends_with("_0") {
            apply_rewrite(e, &root);
        }
    }
    match run_episode(&sc, &root) {
        Ok(out) => Ok(judge_episode(&sc, &out, &refs, 0)),
        Err(e) if e.starts_with("crash") || e == "timeout" => Ok(Some(Violation {
            property: "C17".into(),
            engine: "multibuild".into(),
            class: "crash-or-hang-in-history".into(),
            signature: format!("class=crash-or-hang-in-history mode={}", sc.mode),
            seed: 0,
            expected: "entries that build or fail cleanly alone do so in every history".into(),
            observed: json!({"what": e}),
            scenario: scv.clone(),
        })),
        Err(e) => Err(e),
    }
}

pub fn shrink(scv: &Value) -> Vec<Value> {
    let sc: Scenario = match serde_json::from_value(scv.clone()) {
        Ok(s) => s,
        Err(_) => return vec![],
    };
    let mut out = vec![];
    let mut push = |mut s: Scenario| {
        // drop entries and files that are no longer used
        let used: BTreeSet<String> = s.threads.iter().flatten().map(|o| o.entry.clone()).collect();
        s.entries.retain(|k, _| used.contains(k));
        out.push(serde_json::to_value(s).unwrap())
    };
    // fewer, longer run segments: first try without any context switch inside operations
    if sc.schedule.is_some() || sc.strategy.kind != "sequential" {
        let mut s = sc.clone();
        s.schedule = None;
        s.strategy = StrategySpec { kind: "sequential".into(), p: 0, d: 0 };
        s.sched_seed = 0;
        push(s);
    }
    if sc.fn_mean > 0 {
        let mut s = sc.clone();
        s.fn_mean = 0;
        s.schedule = None;
        push(s);
    }
    // drop fault rules
    for (t, th) in sc.threads.iter().enumerate() {
        for (i, op) in th.iter().enumerate() {
            if !op.rules.is_empty() {
                let mut s = sc.clone();
                s.threads[t][i].rules.clear();
                push(s);
            }
        }
    }
    // drop threads
    if sc.threads.len() > 1 {
        for t in 0..sc.threads.len() {
            let mut s = sc.clone();
            s.threads.remove(t);
            if s.schedule.is_some() {
                s.schedule = None;
            }
            push(s);
        }
    }
    // drop operations: halves, then single ones
    for (t, th) in sc.threads.iter().enumerate() {
        if th.len() > 3 {
            let h = th.len() / 2;
            for (a, b) in [(0, h), (h, th.len())] {
                let mut s = sc.clone();
                s.threads[t].drain(a..b);
                s.schedule = None;
                push(s);
            }
        }
    }
    for (t, th) in sc.threads.iter().enumerate() {
        for i in 0..th.len().min(40) {
            let mut s = sc.clone();
            s.threads[t].remove(i);
            s.schedule = None;
            push(s);
        }
    }
    // shorter schedule: merge neighbouring segments
    if let Some(sch) = &sc.schedule {
        if sch.len() > 1 {
            for i in 0..sch.len().min(30) {
                let mut s2 = sch.clone();
                s2.remove(i);
                let mut s = sc.clone();
                s.schedule = Some(s2);
                push(s);
            }
        }
    }
    // drop source lines of string programs (halves)
    for (id, e) in &sc.entries {
        if e.kind == "str" {
            let lines: Vec<&str> = e.text.lines().collect();
            if lines.len() > 2 {
                let h = lines.len() / 2;
                for keep in [&lines[..h], &lines[h..]] {
                    let mut s = sc.clone();
                    s.entries.get_mut(id).unwrap().text = keep.join("\n") + "\n";
                    push(s);
                }
                for i in 0..lines.len().min(50) {
                    let t = lines[i].trim();
                    if t.starts_with(".if") || t.starts_with(".endif") || t.starts_with(".else") || t.starts_with(".elif") || t.starts_with(".macro") || t.starts_with(".endm") || t.starts_with("#if") {
                        continue;
                    }
                    let mut l2 = lines.clone();
                    l2.remove(i);
                    let mut s = sc.clone();
                    s.entries.get_mut(id).unwrap().text = l2.join("\n") + "\n";
                    push(s);
                }
            }
        }
    }
    if sc.hash_seed != 1 {
        let mut s = sc.clone();
        s.hash_seed = 1;
        push(s);
    }
    out
}

/// development aid: print generated programs and what they build to
pub fn dump_programs(seed: u64, n: usize) {
    let mut r = Rng::new(seed);
    let mut ok = 0;
    let mut by_err: BTreeMap<String, usize> = Default::default();
    for i in 0..n {
        let fam = proggen::family(&mut r, 3, "x");
        for p in fam {
            let t = p.text();
            let res = std::panic::catch_unwind(|| avra_lib::builder::build_str(&t));
            let key = match &res {
                Ok(Ok(_)) => {
                    ok += 1;
                    "ok".to_string()
                }
                Ok(Err(e)) => format!("intent={} err={}", p.intent, e.to_string().chars().take(50).collect::<String>()),
                Err(_) => format!("intent={} PANIC", p.intent),
            };
            if i < 2 {
                println!("---- intent={} -> {}\n{}", p.intent, key, t);
            }
            let k2: String = key.chars().map(|c| if c.is_ascii_digit() { '#' } else { c }).collect();
            *by_err.entry(k2).or_insert(0) += 1;
        }
    }
    println!("ok={}", ok);
    for (k, v) in by_err {
        println!("{:6} {}", v, k);
    }
}
