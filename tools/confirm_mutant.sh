#!/bin/bash
# confirm_mutant.sh <dir with patch.diff + demo.rs|demo.sh>  -> prints one JSON line
# Confirms in the scratch worktree /tmp/wt-confirm: the patch applies, the tree builds, the
# existing suite passes (67), the demonstration fails with the change and passes without it.
D="$1"; WT=/tmp/wt-confirm
export XDG_CONFIG_HOME=$WT/_xdg CARGO_NET_OFFLINE=true
cd $WT && git checkout -q -- . && git clean -qfd -e target -e _xdg
git apply "$D/patch.diff" || { echo "{\"dir\":\"$D\",\"applies\":false}"; exit 0; }
suite=$(cargo test --workspace --no-fail-fast --offline 2>&1 | grep -E "^test result: .* [0-9]+ passed" | head -1)
run_demo() {
  if [ -f "$D/demo.rs" ]; then cp "$D/demo.rs" tests/demo.rs; cargo test --offline --test demo >/tmp/confirm_demo.log 2>&1; r=$?; rm -f tests/demo.rs; return $r
  else cp "$D/demo.sh" ./demo.sh; bash ./demo.sh >/tmp/confirm_demo.log 2>&1; r=$?; rm -f demo.sh; return $r; fi
}
run_demo; with=$?
git checkout -q -- . && git clean -qfd -e target -e _xdg
run_demo; without=$?
git checkout -q -- . && git clean -qfd -e target -e _xdg
echo "{\"dir\":\"$D\",\"applies\":true,\"suite\":\"$suite\",\"demo_exit_with_change\":$with,\"demo_exit_without_change\":$without}"
