//! stub - under construction
use crate::common::*;
use serde_json::Value;
pub const RULE: &str = "";
pub const ASSUMPTIONS: &[&str] = &[];
pub fn worker(_cfg: &WorkerCfg, _emit: &mut dyn FnMut(Violation)) -> Stats { Stats::default() }
pub fn replay(_s: &Value) -> Result<Option<Violation>, String> { Err("not built".into()) }
pub fn shrink(_s: &Value) -> Vec<Value> { vec![] }
