#!/bin/bash
# matrix.sh <out.jsonl> [tier]  - run every seeded change against its own property's check (and C17 for the cache changes)
OUT="$1"; rm -f "$OUT"
for d in /verif/seeded/C*/; do
  id=$(basename $d); prop=${id%%-*}
  checks="$prop"
  case "$id" in C11-a3|C11-b3) checks="C11 C17";; esac
  /verif/tools/detect_all.sh "$OUT" "${d%/}" $checks
done
