#!/bin/bash
# RUSTC_WRAPPER for the function-entry build of the harness: $1 = rustc, the rest its arguments.
# Only the code under test (avra_lib and the helper crates it calls at run time) gets
# -Zinstrument-mcount; the harness itself must not be instrumented (its mcount handler would recurse).
rustc="$1"; shift
name=""; prev=""
for a in "$@"; do if [ "$prev" = "--crate-name" ]; then name="$a"; fi; prev="$a"; done
case "$name" in
  avra_lib|peg_runtime|ihex|failure|strum|byteorder) exec "$rustc" "$@" -Zinstrument-mcount ;;
  *) exec "$rustc" "$@" ;;
esac
