//! An independent Intel HEX reader (own code, not the `ihex` crate): the oracle of C07 and C18.
//!
//! Accepts any well-formed file: record length 0..255, record types 00 (data), 01 (EOF),
//! 02 (extended segment address), 04 (extended linear address), 03/05 (start addresses,
//! ignored); LF or CRLF line ends; blank lines after the EOF record. Rejects everything else.

use std::collections::BTreeMap;

/// Dense below 64 MiB (0xFFFF = not written), sparse above.
#[derive(Debug, Clone, PartialEq, Eq, Default)]
pub struct ByteMap {
    dense: Vec<u16>,
    sparse: BTreeMap<u64, u8>,
    count: usize,
}

const DENSE_LIMIT: u64 = 64 << 20;

impl ByteMap {
    /// returns the previous value if the address was already written
    pub fn insert(&mut self, addr: u64, b: u8) -> Option<u8> {
        if addr < DENSE_LIMIT {
            let a = addr as usize;
            if self.dense.len() <= a {
                let new_len = (a + 1).max(self.dense.len() * 2).min(DENSE_LIMIT as usize);
                self.dense.resize(new_len, 0xFFFF);
            }
            let old = self.dense[a];
            self.dense[a] = b as u16;
            if old == 0xFFFF {
                self.count += 1;
                None
            } else {
                Some(old as u8)
            }
        } else {
            let old = self.sparse.insert(addr, b);
            if old.is_none() {
                self.count += 1;
            }
            old
        }
    }
    pub fn get(&self, addr: u64) -> Option<u8> {
        if addr < DENSE_LIMIT {
            match self.dense.get(addr as usize) {
                Some(v) if *v != 0xFFFF => Some(*v as u8),
                _ => None,
            }
        } else {
            self.sparse.get(&addr).copied()
        }
    }
    pub fn len(&self) -> usize {
        self.count
    }
    /// first written address >= from
    pub fn first_at_or_above(&self, from: u64) -> Option<u64> {
        let mut a = from;
        while a < DENSE_LIMIT && (a as usize) < self.dense.len() {
            if self.dense[a as usize] != 0xFFFF {
                return Some(a);
            }
            a += 1;
        }
        self.sparse.range(from..).next().map(|(k, _)| *k)
    }
}

#[derive(Debug, Clone, PartialEq, Eq)]
pub struct Decoded {
    pub bytes: ByteMap,
    pub data_records: usize,
    pub ext_records: usize,
    pub max_record_len: usize,
}

fn hexval(c: u8) -> Option<u8> {
    match c {
        b'0'..=b'9' => Some(c - b'0'),
        b'a'..=b'f' => Some(c - b'a' + 10),
        b'A'..=b'F' => Some(c - b'A' + 10),
        _ => None,
    }
}

pub fn decode(file: &[u8]) -> Result<Decoded, String> {
    let mut out = Decoded { bytes: ByteMap::default(), data_records: 0, ext_records: 0, max_record_len: 0 };
    let mut base: u64 = 0;
    let mut linear = false; // addressing mode set by the latest 02 / 04 record
    let mut seen_eof = false;
    // split at LF; a CR directly before the LF belongs to the line end
    let mut lineno = 0usize;
    for raw in file.split(|b| *b == b'\n') {
        lineno += 1;
        let line = if raw.last() == Some(&b'\r') { &raw[..raw.len() - 1] } else { raw };
        if line.is_empty() {
            continue; // blank line (also the piece after the final LF)
        }
        if seen_eof {
            if line.iter().all(|b| *b == b'\r') {
                continue; // stray line-end bytes after the EOF record
            }
            return Err(format!("line {}: data after the end-of-file record", lineno));
        }
        if line[0] != b':' {
            return Err(format!("line {}: does not start with ':'", lineno));
        }
        let digits = &line[1..];
        if digits.len() % 2 != 0 {
            return Err(format!("line {}: odd number of hex digits", lineno));
        }
        let mut rec = Vec::with_capacity(digits.len() / 2);
        for pair in digits.chunks(2) {
            match (hexval(pair[0]), hexval(pair[1])) {
                (Some(h), Some(l)) => rec.push(h << 4 | l),
                _ => return Err(format!("line {}: non-hex character", lineno)),
            }
        }
        if rec.len() < 5 {
            return Err(format!("line {}: record shorter than 5 bytes", lineno));
        }
        let ll = rec[0] as usize;
        if rec.len() != ll + 5 {
            return Err(format!("line {}: length field {} does not match record size {}", lineno, ll, rec.len()));
        }
        let sum = rec.iter().fold(0u8, |a, b| a.wrapping_add(*b));
        if sum != 0 {
            return Err(format!("line {}: bad checksum", lineno));
        }
        let off = ((rec[1] as u64) << 8) | rec[2] as u64;
        let typ = rec[3];
        let data = &rec[4..4 + ll];
        match typ {
            0x00 => {
                out.data_records += 1;
                out.max_record_len = out.max_record_len.max(ll);
                for (i, b) in data.iter().enumerate() {
                    // per the Intel specification: without an address record and in segment
                    // mode the offset wraps within 64 KiB, in linear mode it carries on
                    let addr = if linear {
                        (base + off + i as u64) & 0xFFFF_FFFF
                    } else {
                        base + ((off + i as u64) & 0xFFFF)
                    };
                    if out.bytes.insert(addr, *b).is_some() {
                        return Err(format!("line {}: address {:#x} written twice", lineno, addr));
                    }
                }
            }
            0x01 => {
                if ll != 0 {
                    return Err(format!("line {}: end-of-file record with data", lineno));
                }
                seen_eof = true;
            }
            0x02 => {
                if ll != 2 {
                    return Err(format!("line {}: type 02 record must carry 2 bytes", lineno));
                }
                base = (((data[0] as u64) << 8) | data[1] as u64) << 4;
                linear = false;
                out.ext_records += 1;
            }
            0x04 => {
                if ll != 2 {
                    return Err(format!("line {}: type 04 record must carry 2 bytes", lineno));
                }
                base = (((data[0] as u64) << 8) | data[1] as u64) << 16;
                linear = true;
                out.ext_records += 1;
            }
            0x03 | 0x05 => {}
            t => return Err(format!("line {}: unknown record type {:02x}", lineno, t)),
        }
    }
    if !seen_eof {
        return Err("no end-of-file record".to_string());
    }
    Ok(out)
}

/// Does the decoded file reproduce `image` exactly: every byte once at its address, none elsewhere?
pub fn matches_image(d: &Decoded, image: &[u8]) -> Result<(), String> {
    if d.bytes.len() != image.len() {
        // find something concrete to say
        if let Some(a) = d.bytes.first_at_or_above(image.len() as u64) {
            return Err(format!("byte at address {:#x} outside the image of {} bytes", a, image.len()));
        }
        for (i, _) in image.iter().enumerate() {
            if d.bytes.get(i as u64).is_none() {
                return Err(format!("image byte at address {:#x} missing from the file ({} of {} present)", i, d.bytes.len(), image.len()));
            }
        }
    }
    for (i, b) in image.iter().enumerate() {
        match d.bytes.get(i as u64) {
            Some(x) if x == *b => {}
            Some(x) => return Err(format!("address {:#x}: file has {:02x}, image has {:02x}", i, x, b)),
            None => return Err(format!("image byte at address {:#x} missing from the file", i)),
        }
    }
    Ok(())
}

/// A plain encoder (own code): what some earlier tool run could have left at an output path.
/// 16-byte data records, an extended linear address record at every 64 KiB, LF line ends.
pub fn encode(image: &[u8]) -> String {
    fn rec(out: &mut String, addr: u16, typ: u8, data: &[u8]) {
        let mut bytes = vec![data.len() as u8, (addr >> 8) as u8, addr as u8, typ];
        bytes.extend_from_slice(data);
        let sum = bytes.iter().fold(0u8, |a, b| a.wrapping_add(*b));
        bytes.push(sum.wrapping_neg());
        out.push(':');
        for b in bytes {
            out.push_str(&format!("{:02X}", b));
        }
        out.push('\n');
    }
    let mut out = String::new();
    for (i, chunk) in image.chunks(16).enumerate() {
        let addr = i * 16;
        if addr % 0x1_0000 == 0 && addr > 0 {
            rec(&mut out, 0, 4, &[(addr >> 24) as u8, (addr >> 16) as u8]);
        }
        rec(&mut out, (addr % 0x1_0000) as u16, 0, chunk);
    }
    rec(&mut out, 0, 1, &[]);
    out
}

#[cfg(test)]
mod tests {
    use super::*;
    #[test]
    fn basic() {
        let f = b":020000020000FC\r\n:0400000001020304F2\r\n:00000001FF\r\n\r\n";
        let d = decode(f).unwrap();
        assert!(matches_image(&d, &[1, 2, 3, 4]).is_ok());
        assert!(matches_image(&d, &[1, 2, 3]).is_err());
        assert!(decode(b":00000001FF").is_ok());
        assert!(decode(b":00000001FE\n").is_err());
        assert!(decode(b"").is_err());
    }

    fn rec(typ: u8, off: u16, data: &[u8]) -> String {
        let mut b = vec![data.len() as u8, (off >> 8) as u8, off as u8, typ];
        b.extend_from_slice(data);
        let sum = b.iter().fold(0u8, |a, x| a.wrapping_add(*x));
        b.push(0u8.wrapping_sub(sum));
        format!(":{}", b.iter().map(|x| format!("{:02X}", x)).collect::<String>())
    }

    #[test]
    fn addressing() {
        // linear (04) and segment (02) bases, latest wins
        let f = format!("{}\n{}\n{}\n{}\n{}\n", rec(4, 0, &[0x00, 0x01]), rec(0, 0x0010, &[0xAA]), rec(2, 0, &[0x20, 0x00]), rec(0, 0x0005, &[0xBB]), rec(1, 0, &[]));
        let d = decode(f.as_bytes()).unwrap();
        assert_eq!(d.bytes.get(0x10010), Some(0xAA));
        assert_eq!(d.bytes.get(0x20005), Some(0xBB));
        assert_eq!(d.bytes.len(), 2);
        // segment mode wraps the offset within 64 KiB, linear mode carries on
        let f = format!("{}\n{}\n{}\n", rec(2, 0, &[0x10, 0x00]), rec(0, 0xFFFF, &[1, 2]), rec(1, 0, &[]));
        let d = decode(f.as_bytes()).unwrap();
        assert_eq!(d.bytes.get(0x10000 + 0xFFFF), Some(1));
        assert_eq!(d.bytes.get(0x10000), Some(2));
        let f = format!("{}\n{}\n{}\n", rec(4, 0, &[0x00, 0x01]), rec(0, 0xFFFF, &[1, 2]), rec(1, 0, &[]));
        let d = decode(f.as_bytes()).unwrap();
        assert_eq!(d.bytes.get(0x1FFFF), Some(1));
        assert_eq!(d.bytes.get(0x20000), Some(2));
    }

    #[test]
    fn rejects() {
        let eof = rec(1, 0, &[]);
        // an address written twice
        assert!(decode(format!("{}\n{}\n{}\n", rec(0, 0, &[1, 2]), rec(0, 1, &[3]), eof).as_bytes()).is_err());
        // data after the end-of-file record, two end-of-file records, no end-of-file record
        assert!(decode(format!("{}\n{}\n", eof, rec(0, 0, &[1])).as_bytes()).is_err());
        assert!(decode(format!("{}\n{}\n", eof, eof).as_bytes()).is_err());
        assert!(decode(format!("{}\n", rec(0, 0, &[1])).as_bytes()).is_err());
        // torn record, bad length field, unknown type, junk
        let r = rec(0, 0, &[1, 2, 3]);
        assert!(decode(format!("{}\n{}\n", &r[..r.len() - 2], eof).as_bytes()).is_err());
        assert!(decode(format!(":0300000001FC\n{}\n", eof).as_bytes()).is_err());
        assert!(decode(format!("{}\n{}\n", rec(7, 0, &[1]), eof).as_bytes()).is_err());
        assert!(decode(format!("STALE\n{}\n", eof).as_bytes()).is_err());
        // accepted spellings: lower case, LF or CRLF, blank lines and stray CR after the end
        assert!(decode(format!("{}\r\n{}\r\n\r\n\r", rec(0, 0, &[0xAB]).to_lowercase().replace(":", ":"), eof).as_bytes()).is_ok());
        assert!(decode(format!("{}\n{}\n{}", rec(3, 0, &[0, 0, 0, 0]), rec(5, 0, &[0, 0, 0, 0]), eof).as_bytes()).is_ok());
    }

    #[test]
    fn image_match() {
        let img: Vec<u8> = (0..40u8).collect();
        let f = format!("{}\n{}\n{}\n{}\n", rec(0, 0, &img[..16]), rec(0, 16, &img[16..32]), rec(0, 32, &img[32..]), rec(1, 0, &[]));
        let d = decode(f.as_bytes()).unwrap();
        assert!(matches_image(&d, &img).is_ok());
        assert!(matches_image(&d, &img[..39]).is_err());
        let mut more = img.clone();
        more.push(9);
        assert!(matches_image(&d, &more).is_err());
        let mut diff = img.clone();
        diff[17] ^= 1;
        assert!(matches_image(&d, &diff).is_err());
        assert!(matches_image(&decode(b":00000001FF\n").unwrap(), &[]).is_ok());
    }
    #[test]
    fn encode_round_trip() {
        for n in [0usize, 1, 15, 16, 17, 600, 65535, 65536, 65537, 70000] {
            let img: Vec<u8> = (0..n).map(|i| (i * 7 + 3) as u8).collect();
            let d = decode(encode(&img).as_bytes()).expect("decodes");
            assert!(matches_image(&d, &img).is_ok(), "length {}", n);
        }
    }
}
