//! simlibc - the seam at the libc boundary (DESIGN.md 3.1).
//!
//! This file is compiled twice, textually (`#[path]`), never as a crate of its own:
//!   * into the harness executable, where the `#[no_mangle]` definitions below shadow glibc's
//!     for every call the executable's Rust std makes (engines hexio, inctree, multibuild);
//!   * into `libsimpreload.so`, which is `LD_PRELOAD`ed into the unmodified `avra-rs` binary
//!     (engine cli). There the configuration comes from the file named by `SIMLIBC_CONF`.
//!
//! Every intercepted call (1) optionally yields to the scheduler, (2) is matched against the
//! run's explicit fault rules, (3) is performed with a raw `syscall`, shortened or failed, and
//! (4) is appended to the trace. Nothing here draws a random number or reads a clock in order
//! to decide or to log: a run is a function of its rule list.
#![allow(dead_code)]

use libc::{c_char, c_int, c_long, c_uint, c_void, mode_t, off64_t, size_t, ssize_t};
use std::cell::Cell;
use std::ffi::CStr;
use std::sync::atomic::{AtomicBool, AtomicUsize, Ordering};
use std::sync::Mutex;

// ---------------------------------------------------------------------------------------------
// data model
// ---------------------------------------------------------------------------------------------

#[derive(Clone, Copy, PartialEq, Eq, Debug, Hash)]
pub enum Call {
    Open,
    Stat,
    Fstat,
    Read,
    Write,
    Close,
    Lseek,
    Fsync,
    Ftruncate,
    Rename,
    Unlink,
    Mkdir,
    Getcwd,
    Chdir,
    Getrandom,
    Clock,
    /// flock(2): advisory locks (std's File::lock / try_lock)
    Flock,
    /// getenv(3) of a name outside the usual ones (see `usual_env_name`): a configuration knob
    /// the code under test reads; the name is recorded as the event's path
    Getenv,
}

impl Call {
    pub fn name(self) -> &'static str {
        match self {
            Call::Open => "open",
            Call::Stat => "stat",
            Call::Fstat => "fstat",
            Call::Read => "read",
            Call::Write => "write",
            Call::Close => "close",
            Call::Lseek => "lseek",
            Call::Fsync => "fsync",
            Call::Ftruncate => "ftruncate",
            Call::Rename => "rename",
            Call::Unlink => "unlink",
            Call::Mkdir => "mkdir",
            Call::Getcwd => "getcwd",
            Call::Chdir => "chdir",
            Call::Flock => "flock",
            Call::Getrandom => "getrandom",
            Call::Clock => "clock",
            Call::Getenv => "getenv",
        }
    }
    pub fn from_name(s: &str) -> Option<Call> {
        Some(match s {
            "open" => Call::Open,
            "stat" => Call::Stat,
            "fstat" => Call::Fstat,
            "read" => Call::Read,
            "write" => Call::Write,
            "close" => Call::Close,
            "lseek" => Call::Lseek,
            "fsync" => Call::Fsync,
            "ftruncate" => Call::Ftruncate,
            "rename" => Call::Rename,
            "unlink" => Call::Unlink,
            "mkdir" => Call::Mkdir,
            "getcwd" => Call::Getcwd,
            "chdir" => Call::Chdir,
            "flock" => Call::Flock,
            "getrandom" => Call::Getrandom,
            "clock" => Call::Clock,
            "getenv" => Call::Getenv,
            _ => return None,
        })
    }
}

#[derive(Clone, Copy, PartialEq, Eq, Debug)]
pub enum Action {
    /// fail with this errno, nothing performed
    Errno(i32),
    /// transfer at most n bytes (read/write)
    Limit(usize),
    /// transfer n bytes fewer than requested, at least one (read/write)
    ShortBy(usize),
    /// return 0 without transferring anything (write; read = premature EOF is not a legal fault)
    Zero,
}

#[derive(Clone, Debug)]
pub struct Rule {
    pub call: Call,
    /// "*" any subject path; "<stdout>"/"<stderr>"; otherwise the path as recorded, or a suffix
    /// of it starting at a component boundary
    pub target: String,
    /// the nth (0-based) call matching (call, target) fires; -1 = every one
    pub nth: i64,
    /// only for thread `tid` (simulated thread id), -1 = any
    pub tid: i32,
    pub action: Action,
    pub seen: u64,
    pub fired: u64,
}

impl Rule {
    pub fn new(call: Call, target: &str, nth: i64, action: Action) -> Rule {
        Rule { call, target: target.to_string(), nth, tid: -1, action, seen: 0, fired: 0 }
    }
}

#[derive(Clone, Debug, PartialEq, Eq)]
pub struct Event {
    pub seq: u64,
    pub tid: u32,
    pub call: Call,
    /// recorded path ("$R/..." for paths below the scratch root) or "<fd n>" class
    pub path: String,
    pub req: i64,
    pub ret: i64,
    pub errno: i32,
    /// index of the rule that fired, -1 none, -2 step budget exhausted
    pub rule: i32,
}

pub struct SimState {
    /// absolute path of the scratch root, no trailing slash; empty = everything absolute is foreign
    pub root: String,
    /// a second owned directory (the standard include directory), recorded as "$X/..."
    pub root2: String,
    pub rules: Vec<Rule>,
    pub fds: Vec<Option<String>>,
    pub trace: Vec<Event>,
    pub keep_trace: bool,
    pub trace_fd: c_int,
    pub seq: u64,
    pub steps: u64,
    pub budget: u64,
    pub budget_hit: bool,
    pub read_cap: usize,
    pub write_cap: usize,
    pub hash_seed: u64,
    pub clock_origin: u64,
    pub clock_ticks: u64,
    pub fired_total: u64,
    /// treat fds 1/2 as subject targets (preload form only)
    pub stdio_subject: bool,
    /// cwd changes observed (chdir calls that succeeded)
    pub chdirs: u64,
}

impl SimState {
    pub fn new(root: &str) -> SimState {
        SimState {
            root: root.trim_end_matches('/').to_string(),
            root2: String::new(),
            rules: vec![],
            fds: vec![],
            trace: vec![],
            keep_trace: true,
            trace_fd: -1,
            seq: 0,
            steps: 0,
            budget: u64::MAX,
            budget_hit: false,
            read_cap: 0,
            write_cap: 0,
            hash_seed: 0,
            clock_origin: 1_600_000_000,
            clock_ticks: 0,
            fired_total: 0,
            stdio_subject: false,
            chdirs: 0,
        }
    }
}

// ---------------------------------------------------------------------------------------------
// global state and gating
// ---------------------------------------------------------------------------------------------

pub static SIM: Mutex<Option<SimState>> = Mutex::new(None);

/// Scheduler hook: `fn(site: u32)`; 0 = none. Called outside the SIM lock, with BYPASS set.
pub static YIELD_HOOK: AtomicUsize = AtomicUsize::new(0);

/// preload form: every thread is subject once initialised
static ALL_THREADS: AtomicBool = AtomicBool::new(false);

static PRELOAD_NEXT: AtomicUsize = AtomicUsize::new(0);

thread_local! {
    static PRELOAD_TIDX: Cell<u32> = const { Cell::new(u32::MAX) };
    /// 0 = pass-through; n>0 = simulated thread n-1
    static ACTIVE: Cell<u32> = const { Cell::new(0) };
    /// >0 while inside simlibc itself or the scheduler: pass-through
    static BYPASS: Cell<u32> = const { Cell::new(0) };
}

pub fn set_active(tid: Option<u32>) {
    ACTIVE.with(|a| a.set(match tid { Some(t) => t + 1, None => 0 }));
}

pub fn active_tid() -> Option<u32> {
    if BYPASS.with(|b| b.get()) > 0 {
        return None;
    }
    let a = ACTIVE.with(|a| a.get());
    if a > 0 {
        Some(a - 1)
    } else if ALL_THREADS.load(Ordering::Relaxed) {
        // preload form: threads are numbered in the order of their first intercepted call
        // (the main thread is 0; anything else means the program started threads of its own)
        let idx = PRELOAD_TIDX.with(|c| {
            if c.get() == u32::MAX {
                c.set(PRELOAD_NEXT.fetch_add(1, Ordering::Relaxed) as u32);
            }
            c.get()
        });
        Some(idx)
    } else {
        None
    }
}

pub struct BypassGuard;
impl BypassGuard {
    pub fn new() -> BypassGuard {
        BYPASS.with(|b| b.set(b.get() + 1));
        BypassGuard
    }
}
impl Drop for BypassGuard {
    fn drop(&mut self) {
        BYPASS.with(|b| b.set(b.get() - 1));
    }
}

/// Run `f` with simlibc switched to pass-through on this thread.
pub fn bypass<T>(f: impl FnOnce() -> T) -> T {
    let _g = BypassGuard::new();
    f()
}

pub fn install(state: SimState) {
    let _g = BypassGuard::new();
    *SIM.lock().unwrap_or_else(|e| e.into_inner()) = Some(state);
}

pub fn uninstall() -> Option<SimState> {
    let _g = BypassGuard::new();
    SIM.lock().unwrap_or_else(|e| e.into_inner()).take()
}

pub fn with_state<T>(f: impl FnOnce(&mut SimState) -> T) -> Option<T> {
    let _g = BypassGuard::new();
    let mut g = SIM.lock().unwrap_or_else(|e| e.into_inner());
    g.as_mut().map(f)
}

// ---------------------------------------------------------------------------------------------
// helpers
// ---------------------------------------------------------------------------------------------

#[inline]
unsafe fn set_errno(e: i32) {
    *libc::__errno_location() = e;
}
#[inline]
unsafe fn get_errno() -> i32 {
    *libc::__errno_location()
}

unsafe fn cstr_lossy(p: *const c_char) -> String {
    if p.is_null() {
        return String::new();
    }
    String::from_utf8_lossy(CStr::from_ptr(p).to_bytes()).into_owned()
}

/// Is this path one the simulation owns? Relative paths, paths below the scratch root, and the
/// two device files used as real faults.
fn classify_path(st: &SimState, p: &str) -> Option<String> {
    if !p.starts_with('/') {
        return Some(p.to_string());
    }
    if !st.root.is_empty() {
        if p == st.root {
            return Some("$R".to_string());
        }
        if p.starts_with(&st.root) && p.as_bytes()[st.root.len()] == b'/' {
            return Some(format!("$R{}", &p[st.root.len()..]));
        }
    }
    if !st.root2.is_empty() && p.starts_with(&st.root2) && p.len() > st.root2.len() && p.as_bytes()[st.root2.len()] == b'/' {
        return Some(format!("$X{}", &p[st.root2.len()..]));
    }
    if p == "/dev/full" || p == "/dev/null" {
        return Some(p.to_string());
    }
    None
}

pub fn target_matches(target: &str, path: &str) -> bool {
    if target == "*" {
        return !path.starts_with('<');
    }
    if path == target {
        return true;
    }
    if path.len() > target.len() && path.ends_with(target) {
        return path.as_bytes()[path.len() - target.len() - 1] == b'/';
    }
    false
}

fn fd_path(st: &SimState, fd: c_int) -> Option<String> {
    if fd >= 0 {
        if let Some(Some(p)) = st.fds.get(fd as usize) {
            return Some(p.clone());
        }
        if st.stdio_subject {
            if fd == 1 {
                return Some("<stdout>".to_string());
            }
            if fd == 2 {
                return Some("<stderr>".to_string());
            }
        }
    }
    None
}

/// Size the next fstat-by-statx is to report instead of the true one (-1: none). Set and cleared
/// under the SIM lock, around the real call, by fd_call - "the size a file reports is only a hint":
/// procfs and sysfs files, pipes and files that grow while they are read all report a size that
/// is not the number of bytes reading yields.
static SIZE_LIE: std::sync::atomic::AtomicI64 = std::sync::atomic::AtomicI64::new(-1);

enum Decision {
    Pass,
    Fail(i32),
    Limit(usize),
    Zero,
}

/// Match the call against the rules; returns the decision and the index of the rule that fired.
fn decide(st: &mut SimState, tid: u32, call: Call, path: &str, req: usize) -> (Decision, i32) {
    st.steps += 1;
    if st.steps > st.budget {
        st.budget_hit = true;
        return (Decision::Fail(libc::EIO), -2);
    }
    let mut decision = Decision::Pass;
    let mut which = -1;
    for (i, r) in st.rules.iter_mut().enumerate() {
        if r.call != call || (r.tid >= 0 && r.tid as u32 != tid) || !target_matches(&r.target, path) {
            continue;
        }
        let k = r.seen;
        r.seen += 1;
        if which >= 0 {
            continue;
        }
        if r.nth < 0 || r.nth as u64 == k {
            r.fired += 1;
            which = i as i32;
            decision = match r.action {
                Action::Errno(e) => Decision::Fail(e),
                // (a transfer of at least one byte; a reported size may well be 0)
                Action::Limit(n) => Decision::Limit(if call == Call::Fstat { n } else { n.max(1) }),
                Action::ShortBy(n) => Decision::Limit(req.saturating_sub(n).max(1)),
                Action::Zero => Decision::Zero,
            };
        }
    }
    if which >= 0 {
        st.fired_total += 1;
    } else {
        match call {
            Call::Read if st.read_cap > 0 => decision = Decision::Limit(st.read_cap),
            Call::Write if st.write_cap > 0 && !path.starts_with('<') => decision = Decision::Limit(st.write_cap),
            _ => {}
        }
    }
    (decision, which)
}

fn record(st: &mut SimState, tid: u32, call: Call, path: &str, req: i64, ret: i64, errno: i32, rule: i32) {
    let ev = Event { seq: st.seq, tid, call, path: path.to_string(), req, ret, errno, rule };
    st.seq += 1;
    if st.trace_fd >= 0 {
        let line = format!(
            "{} {} {} {} {} {} {} {}\n",
            ev.seq,
            ev.tid,
            ev.call.name(),
            ev.req,
            ev.ret,
            ev.errno,
            ev.rule,
            ev.path
        );
        unsafe {
            libc::syscall(libc::SYS_write, st.trace_fd as c_long, line.as_ptr(), line.len());
        }
    }
    if st.keep_trace {
        st.trace.push(ev);
    }
}

fn sched_yield(site: u32) {
    let h = YIELD_HOOK.load(Ordering::Acquire);
    if h != 0 {
        let f: fn(u32) = unsafe { std::mem::transmute::<usize, fn(u32)>(h) };
        let _g = BypassGuard::new();
        f(site);
    }
}

/// Sites reported to the scheduler for intercepted calls (hook sites in /repo are 1..=99).
pub const SITE_OPEN: u32 = 100;
pub const SITE_STAT: u32 = 101;
pub const SITE_READ: u32 = 102;
pub const SITE_WRITE: u32 = 103;
pub const SITE_CLOSE: u32 = 104;
pub const SITE_GETCWD: u32 = 105;
pub const SITE_OTHER: u32 = 106;

// ---------------------------------------------------------------------------------------------
// the interposed symbols
// ---------------------------------------------------------------------------------------------

unsafe fn do_open(path: *const c_char, flags: c_int, mode: mode_t) -> c_int {
    libc::syscall(libc::SYS_openat, libc::AT_FDCWD as c_long, path, flags as c_long, mode as c_long) as c_int
}

unsafe fn open_common(path: *const c_char, flags: c_int, mode: mode_t) -> c_int {
    let tid = match active_tid() {
        Some(t) => t,
        None => return do_open(path, flags, mode),
    };
    maybe_init();
    let p = cstr_lossy(path);
    let _g = BypassGuard::new();
    let cls = {
        let g = SIM.lock().unwrap_or_else(|e| e.into_inner());
        match g.as_ref() {
            Some(st) => classify_path(st, &p),
            None => None,
        }
    };
    let cls = match cls {
        Some(c) => c,
        None => return do_open(path, flags, mode),
    };
    sched_yield(SITE_OPEN);
    let mut g = SIM.lock().unwrap_or_else(|e| e.into_inner());
    let st = match g.as_mut() {
        Some(st) => st,
        None => return do_open(path, flags, mode),
    };
    let (d, rule) = decide(st, tid, Call::Open, &cls, 0);
    let (ret, err) = match d {
        Decision::Fail(e) => (-1, e),
        _ => {
            let r = do_open(path, flags, mode);
            (r, if r < 0 { get_errno() } else { 0 })
        }
    };
    if ret >= 0 {
        let i = ret as usize;
        if st.fds.len() <= i {
            st.fds.resize(i + 1, None);
        }
        st.fds[i] = Some(cls.clone());
    }
    record(st, tid, Call::Open, &cls, flags as i64, ret as i64, err, rule);
    drop(g);
    if ret < 0 {
        set_errno(err);
    }
    ret
}

#[no_mangle]
pub unsafe extern "C" fn open64(path: *const c_char, flags: c_int, mode: mode_t) -> c_int {
    open_common(path, flags | libc::O_LARGEFILE, mode)
}

#[no_mangle]
pub unsafe extern "C" fn open(path: *const c_char, flags: c_int, mode: mode_t) -> c_int {
    open_common(path, flags, mode)
}

#[no_mangle]
pub unsafe extern "C" fn creat64(path: *const c_char, mode: mode_t) -> c_int {
    open_common(path, libc::O_CREAT | libc::O_WRONLY | libc::O_TRUNC | libc::O_LARGEFILE, mode)
}

unsafe fn rw_common(is_write: bool, fd: c_int, buf: *mut c_void, count: size_t) -> ssize_t {
    let nr = if is_write { libc::SYS_write } else { libc::SYS_read };
    let real = |n: size_t| -> ssize_t { libc::syscall(nr, fd as c_long, buf, n) as ssize_t };
    let tid = match active_tid() {
        Some(t) => t,
        None => return real(count),
    };
    maybe_init();
    let _g = BypassGuard::new();
    let cls = {
        let g = SIM.lock().unwrap_or_else(|e| e.into_inner());
        match g.as_ref() {
            Some(st) => fd_path(st, fd),
            None => None,
        }
    };
    let cls = match cls {
        Some(c) => c,
        None => return real(count),
    };
    let call = if is_write { Call::Write } else { Call::Read };
    if !cls.starts_with('<') {
        sched_yield(if is_write { SITE_WRITE } else { SITE_READ });
    }
    let mut g = SIM.lock().unwrap_or_else(|e| e.into_inner());
    let st = match g.as_mut() {
        Some(st) => st,
        None => return real(count),
    };
    let (d, rule) = decide(st, tid, call, &cls, count);
    let (ret, err) = match d {
        Decision::Fail(e) => (-1, e),
        Decision::Zero => (0, 0),
        Decision::Limit(n) => {
            let r = real(count.min(n));
            (r, if r < 0 { get_errno() } else { 0 })
        }
        Decision::Pass => {
            let r = real(count);
            (r, if r < 0 { get_errno() } else { 0 })
        }
    };
    record(st, tid, call, &cls, count as i64, ret as i64, err, rule);
    drop(g);
    if ret < 0 {
        set_errno(err);
    }
    ret
}

#[no_mangle]
pub unsafe extern "C" fn read(fd: c_int, buf: *mut c_void, count: size_t) -> ssize_t {
    rw_common(false, fd, buf, count)
}

#[no_mangle]
pub unsafe extern "C" fn write(fd: c_int, buf: *const c_void, count: size_t) -> ssize_t {
    rw_common(true, fd, buf as *mut c_void, count)
}

/// Positioned I/O: the same rules, caps and trace as read/write (the offset is not modelled:
/// a shortened transfer is still a legal short transfer at that offset).
#[no_mangle]
pub unsafe extern "C" fn pwrite64(fd: c_int, buf: *const c_void, count: size_t, off: off64_t) -> ssize_t {
    prw_common(true, fd, buf as *mut c_void, count, off)
}

#[no_mangle]
pub unsafe extern "C" fn pread64(fd: c_int, buf: *mut c_void, count: size_t, off: off64_t) -> ssize_t {
    prw_common(false, fd, buf, count, off)
}

#[no_mangle]
pub unsafe extern "C" fn pwrite(fd: c_int, buf: *const c_void, count: size_t, off: libc::off_t) -> ssize_t {
    prw_common(true, fd, buf as *mut c_void, count, off as off64_t)
}

#[no_mangle]
pub unsafe extern "C" fn pread(fd: c_int, buf: *mut c_void, count: size_t, off: libc::off_t) -> ssize_t {
    prw_common(false, fd, buf, count, off as off64_t)
}

unsafe fn prw_common(is_write: bool, fd: c_int, buf: *mut c_void, count: size_t, off: off64_t) -> ssize_t {
    let nr = if is_write { libc::SYS_pwrite64 } else { libc::SYS_pread64 };
    let real = |n: size_t| -> ssize_t { libc::syscall(nr, fd as c_long, buf, n, off as c_long) as ssize_t };
    let tid = match active_tid() {
        Some(t) => t,
        None => return real(count),
    };
    maybe_init();
    let _g = BypassGuard::new();
    let cls = {
        let g = SIM.lock().unwrap_or_else(|e| e.into_inner());
        match g.as_ref() {
            Some(st) => fd_path(st, fd),
            None => None,
        }
    };
    let cls = match cls {
        Some(c) if !c.starts_with('<') => c,
        _ => return real(count),
    };
    let call = if is_write { Call::Write } else { Call::Read };
    sched_yield(if is_write { SITE_WRITE } else { SITE_READ });
    let mut g = SIM.lock().unwrap_or_else(|e| e.into_inner());
    let st = match g.as_mut() {
        Some(st) => st,
        None => return real(count),
    };
    let (d, rule) = decide(st, tid, call, &cls, count);
    let (ret, err) = match d {
        Decision::Fail(e) => (-1, e),
        Decision::Zero => (0, 0),
        Decision::Limit(n) => {
            let r = real(count.min(n));
            (r, if r < 0 { get_errno() } else { 0 })
        }
        Decision::Pass => {
            let r = real(count);
            (r, if r < 0 { get_errno() } else { 0 })
        }
    };
    record(st, tid, call, &cls, count as i64, ret as i64, err, rule);
    drop(g);
    if ret < 0 {
        set_errno(err);
    }
    ret
}

/// Vectored I/O is served through the scalar path, one call per invocation on the first
/// non-empty buffer (a legal short transfer), so that rules and caps see it.
#[no_mangle]
pub unsafe extern "C" fn writev(fd: c_int, iov: *const libc::iovec, iovcnt: c_int) -> ssize_t {
    if active_tid().is_none() {
        return libc::syscall(libc::SYS_writev, fd as c_long, iov, iovcnt as c_long) as ssize_t;
    }
    for i in 0..iovcnt.max(0) as usize {
        let v = &*iov.add(i);
        if v.iov_len > 0 {
            return rw_common(true, fd, v.iov_base, v.iov_len);
        }
    }
    0
}

#[no_mangle]
pub unsafe extern "C" fn readv(fd: c_int, iov: *const libc::iovec, iovcnt: c_int) -> ssize_t {
    if active_tid().is_none() {
        return libc::syscall(libc::SYS_readv, fd as c_long, iov, iovcnt as c_long) as ssize_t;
    }
    for i in 0..iovcnt.max(0) as usize {
        let v = &*iov.add(i);
        if v.iov_len > 0 {
            return rw_common(false, fd, v.iov_base, v.iov_len);
        }
    }
    0
}

/// A call on an fd with no data transfer: close, fsync, fdatasync, ftruncate, lseek, fstat.
unsafe fn fd_call(call: Call, fd: c_int, req: i64, site: u32, real: &dyn Fn() -> i64) -> i64 {
    let tid = match active_tid() {
        Some(t) => t,
        None => return real(),
    };
    maybe_init();
    let _g = BypassGuard::new();
    let cls = {
        let g = SIM.lock().unwrap_or_else(|e| e.into_inner());
        match g.as_ref() {
            Some(st) => fd_path(st, fd),
            None => None,
        }
    };
    let cls = match cls {
        Some(c) if !c.starts_with('<') => c,
        _ => return real(),
    };
    if site != 0 {
        sched_yield(site);
    }
    let mut g = SIM.lock().unwrap_or_else(|e| e.into_inner());
    let st = match g.as_mut() {
        Some(st) => st,
        None => return real(),
    };
    let (d, rule) = decide(st, tid, call, &cls, 0);
    let (ret, err) = match d {
        Decision::Fail(e) => {
            if call == Call::Close {
                // a failing close still releases the descriptor, as on Linux
                libc::syscall(libc::SYS_close, fd as c_long);
            }
            (-1, e)
        }
        Decision::Limit(n) if call == Call::Fstat => {
            SIZE_LIE.store(n as i64, std::sync::atomic::Ordering::SeqCst);
            let r = real();
            SIZE_LIE.store(-1, std::sync::atomic::Ordering::SeqCst);
            (r, if r < 0 { get_errno() } else { 0 })
        }
        _ => {
            let r = real();
            (r, if r < 0 { get_errno() } else { 0 })
        }
    };
    if call == Call::Close {
        if let Some(slot) = st.fds.get_mut(fd as usize) {
            *slot = None;
        }
    }
    record(st, tid, call, &cls, req, ret, err, rule);
    drop(g);
    if ret < 0 {
        set_errno(err);
    }
    ret
}

#[no_mangle]
pub unsafe extern "C" fn close(fd: c_int) -> c_int {
    fd_call(Call::Close, fd, 0, SITE_CLOSE, &|| libc::syscall(libc::SYS_close, fd as c_long) as i64) as c_int
}

#[no_mangle]
pub unsafe extern "C" fn fsync(fd: c_int) -> c_int {
    fd_call(Call::Fsync, fd, 0, SITE_OTHER, &|| libc::syscall(libc::SYS_fsync, fd as c_long) as i64) as c_int
}

/// Advisory locks: the unchanged tree takes none; a tree that does meets "the lock is busy"
/// (EWOULDBLOCK on a non-blocking request, EINTR on a blocking one) like any other fault.
#[no_mangle]
pub unsafe extern "C" fn flock(fd: c_int, op: c_int) -> c_int {
    fd_call(Call::Flock, fd, op as i64, SITE_OTHER, &|| libc::syscall(libc::SYS_flock, fd as c_long, op as c_long) as i64) as c_int
}

#[no_mangle]
pub unsafe extern "C" fn fdatasync(fd: c_int) -> c_int {
    fd_call(Call::Fsync, fd, 1, SITE_OTHER, &|| libc::syscall(libc::SYS_fdatasync, fd as c_long) as i64) as c_int
}

#[no_mangle]
pub unsafe extern "C" fn ftruncate64(fd: c_int, len: off64_t) -> c_int {
    fd_call(Call::Ftruncate, fd, len as i64, SITE_OTHER, &|| {
        libc::syscall(libc::SYS_ftruncate, fd as c_long, len as c_long) as i64
    }) as c_int
}

#[no_mangle]
pub unsafe extern "C" fn ftruncate(fd: c_int, len: libc::off_t) -> c_int {
    ftruncate64(fd, len as off64_t)
}

#[no_mangle]
pub unsafe extern "C" fn lseek64(fd: c_int, off: off64_t, whence: c_int) -> off64_t {
    fd_call(Call::Lseek, fd, off as i64, 0, &|| {
        libc::syscall(libc::SYS_lseek, fd as c_long, off as c_long, whence as c_long) as i64
    }) as off64_t
}

#[no_mangle]
pub unsafe extern "C" fn lseek(fd: c_int, off: libc::off_t, whence: c_int) -> libc::off_t {
    lseek64(fd, off as off64_t, whence) as libc::off_t
}

/// A call on one path with no data transfer: stat, unlink, mkdir, chdir.
unsafe fn path_call(call: Call, path: *const c_char, req: i64, site: u32, real: &dyn Fn() -> i64) -> i64 {
    let tid = match active_tid() {
        Some(t) => t,
        None => return real(),
    };
    maybe_init();
    let p = cstr_lossy(path);
    let _g = BypassGuard::new();
    let cls = {
        let g = SIM.lock().unwrap_or_else(|e| e.into_inner());
        match g.as_ref() {
            Some(st) => classify_path(st, &p),
            None => None,
        }
    };
    let cls = match cls {
        Some(c) => c,
        None => return real(),
    };
    sched_yield(site);
    let mut g = SIM.lock().unwrap_or_else(|e| e.into_inner());
    let st = match g.as_mut() {
        Some(st) => st,
        None => return real(),
    };
    let (d, rule) = decide(st, tid, call, &cls, 0);
    let (ret, err) = match d {
        Decision::Fail(e) => (-1, e),
        _ => {
            let r = real();
            (r, if r < 0 { get_errno() } else { 0 })
        }
    };
    if call == Call::Chdir && ret == 0 {
        st.chdirs += 1;
    }
    record(st, tid, call, &cls, req, ret, err, rule);
    drop(g);
    if ret < 0 {
        set_errno(err);
    }
    ret
}

#[no_mangle]
pub unsafe extern "C" fn statx(
    dirfd: c_int,
    path: *const c_char,
    flags: c_int,
    mask: c_uint,
    buf: *mut c_void,
) -> c_int {
    let real = || -> i64 {
        let r = libc::syscall(libc::SYS_statx, dirfd as c_long, path, flags as c_long, mask as c_long, buf) as i64;
        let lie = SIZE_LIE.load(std::sync::atomic::Ordering::SeqCst);
        if r == 0 && lie >= 0 && !buf.is_null() {
            (*(buf as *mut libc::statx)).stx_size = lie as u64;
        }
        r
    };
    if path.is_null() {
        // Rust's std probes for statx with a NULL path and expects EFAULT: not an I/O event
        return real() as c_int;
    }
    let empty = *path == 0;
    if empty && (flags & libc::AT_EMPTY_PATH) != 0 {
        return fd_call(Call::Fstat, dirfd, 0, 0, &real) as c_int;
    }
    if dirfd != libc::AT_FDCWD && !path.is_null() && *path != b'/' as c_char {
        return real() as c_int;
    }
    path_call(Call::Stat, path, flags as i64, SITE_STAT, &real) as c_int
}

#[no_mangle]
pub unsafe extern "C" fn unlink(path: *const c_char) -> c_int {
    path_call(Call::Unlink, path, 0, SITE_OTHER, &|| {
        libc::syscall(libc::SYS_unlinkat, libc::AT_FDCWD as c_long, path, 0 as c_long) as i64
    }) as c_int
}

#[no_mangle]
pub unsafe extern "C" fn mkdir(path: *const c_char, mode: mode_t) -> c_int {
    path_call(Call::Mkdir, path, mode as i64, SITE_OTHER, &|| {
        libc::syscall(libc::SYS_mkdirat, libc::AT_FDCWD as c_long, path, mode as c_long) as i64
    }) as c_int
}

#[no_mangle]
pub unsafe extern "C" fn chdir(path: *const c_char) -> c_int {
    path_call(Call::Chdir, path, 0, SITE_OTHER, &|| libc::syscall(libc::SYS_chdir, path) as i64) as c_int
}

/// rename is matched against the *destination* (the path that ends up holding the output).
#[no_mangle]
pub unsafe extern "C" fn rename(from: *const c_char, to: *const c_char) -> c_int {
    path_call(Call::Rename, to, 0, SITE_OTHER, &|| {
        libc::syscall(libc::SYS_renameat, libc::AT_FDCWD as c_long, from, libc::AT_FDCWD as c_long, to) as i64
    }) as c_int
}

#[no_mangle]
pub unsafe extern "C" fn getcwd(buf: *mut c_char, size: size_t) -> *mut c_char {
    // glibc semantics for buf == NULL (allocate) are not needed by Rust's std, which always
    // passes a buffer; fall back to an error for the NULL form.
    let real = || -> *mut c_char {
        if buf.is_null() {
            set_errno(libc::EINVAL);
            return std::ptr::null_mut();
        }
        let r = libc::syscall(libc::SYS_getcwd, buf, size);
        if r < 0 {
            std::ptr::null_mut()
        } else {
            buf
        }
    };
    let tid = match active_tid() {
        Some(t) => t,
        None => return real(),
    };
    maybe_init();
    let _g = BypassGuard::new();
    sched_yield(SITE_GETCWD);
    let mut g = SIM.lock().unwrap_or_else(|e| e.into_inner());
    let st = match g.as_mut() {
        Some(st) => st,
        None => return real(),
    };
    let (d, rule) = decide(st, tid, Call::Getcwd, "<cwd>", 0);
    let (ret, err) = match d {
        Decision::Fail(e) => (std::ptr::null_mut(), e),
        _ => {
            let r = real();
            (r, if r.is_null() { get_errno() } else { 0 })
        }
    };
    record(st, tid, Call::Getcwd, "<cwd>", size as i64, if ret.is_null() { -1 } else { 0 }, err, rule);
    drop(g);
    if ret.is_null() {
        set_errno(err);
    }
    ret
}

// --- randomness and time: owned, never faulted, never a yield point ---------------------------

fn splitmix(x: &mut u64) -> u64 {
    *x = x.wrapping_add(0x9E3779B97F4A7C15);
    let mut z = *x;
    z = (z ^ (z >> 30)).wrapping_mul(0xBF58476D1CE4E5B9);
    z = (z ^ (z >> 27)).wrapping_mul(0x94D049BB133111EB);
    z ^ (z >> 31)
}

#[no_mangle]
pub unsafe extern "C" fn getrandom(buf: *mut c_void, len: size_t, flags: c_uint) -> ssize_t {
    let real = || libc::syscall(libc::SYS_getrandom, buf, len, flags as c_long) as ssize_t;
    let tid = match active_tid() {
        Some(t) => t,
        None => return real(),
    };
    maybe_init();
    let _g = BypassGuard::new();
    let mut g = SIM.lock().unwrap_or_else(|e| e.into_inner());
    let st = match g.as_mut() {
        Some(st) => st,
        None => return real(),
    };
    // bytes are a function of (hash seed, simulated thread id) only
    let mut x = st.hash_seed ^ ((tid as u64 + 1).wrapping_mul(0xD6E8FEB86659FD93));
    let out = std::slice::from_raw_parts_mut(buf as *mut u8, len);
    let mut i = 0;
    while i < len {
        let v = splitmix(&mut x).to_le_bytes();
        let n = (len - i).min(8);
        out[i..i + n].copy_from_slice(&v[..n]);
        i += n;
    }
    record(st, tid, Call::Getrandom, "<random>", len as i64, len as i64, 0, -1);
    len as ssize_t
}

extern "C" {
    static environ: *const *const c_char;
}

/// Names every program's runtime and helper crates ask for; anything else the code under test
/// asks for is a knob of its own.
pub fn usual_env_name(n: &[u8]) -> bool {
    const PRE: &[&[u8]] = &[b"RUST", b"HOME", b"XDG_", b"TMP", b"TEMP", b"PATH", b"LANG", b"LC_", b"TERM", b"NO_COLOR", b"CLICOLOR", b"COLUMNS", b"LINES", b"LD_", b"MALLOC_", b"GLIBC_", b"TZ", b"SIMLIBC", b"VERIF", b"USER", b"LOGNAME", b"SHELL", b"PWD", b"CARGO", b"COLORTERM", b"FORCE_COLOR"];
    PRE.iter().any(|p| n.starts_with(p))
}

/// getenv by an own walk over `environ` (values are whatever the process was started with or
/// set later); a query for a name outside the usual ones is recorded - the engines then run the
/// scenario again with that knob set.
#[no_mangle]
pub unsafe extern "C" fn getenv(name: *const c_char) -> *mut c_char {
    if name.is_null() {
        return std::ptr::null_mut();
    }
    let n = std::ffi::CStr::from_ptr(name).to_bytes();
    let mut found: *mut c_char = std::ptr::null_mut();
    let mut p = environ;
    if !p.is_null() && !n.is_empty() {
        while !(*p).is_null() {
            let e = std::ffi::CStr::from_ptr(*p).to_bytes();
            if e.len() > n.len() && e[n.len()] == b'=' && &e[..n.len()] == n {
                found = (*p).add(n.len() + 1) as *mut c_char;
                break;
            }
            p = p.add(1);
        }
    }
    if usual_env_name(n) {
        return found;
    }
    let tid = match active_tid() {
        Some(t) => t,
        None => return found,
    };
    maybe_init();
    let _g = BypassGuard::new();
    let mut g = SIM.lock().unwrap_or_else(|e| e.into_inner());
    if let Some(st) = g.as_mut() {
        let nm = String::from_utf8_lossy(n).into_owned();
        record(st, tid, Call::Getenv, &nm, 0, if found.is_null() { 0 } else { 1 }, 0, -1);
    }
    found
}

/// Process and thread ids are a source of nondeterminism too (temporary file names are
/// commonly built from them): the simulated process always has the same ids.
pub const SIM_PID: libc::pid_t = 4242;

#[no_mangle]
pub unsafe extern "C" fn getpid() -> libc::pid_t {
    match active_tid() {
        Some(_) => SIM_PID,
        None => libc::syscall(libc::SYS_getpid) as libc::pid_t,
    }
}

#[no_mangle]
pub unsafe extern "C" fn getppid() -> libc::pid_t {
    match active_tid() {
        Some(_) => SIM_PID - 1,
        None => libc::syscall(libc::SYS_getppid) as libc::pid_t,
    }
}

#[no_mangle]
pub unsafe extern "C" fn gettid() -> libc::pid_t {
    match active_tid() {
        Some(t) => SIM_PID + t as libc::pid_t,
        None => libc::syscall(libc::SYS_gettid) as libc::pid_t,
    }
}

#[no_mangle]
pub unsafe extern "C" fn clock_gettime(clk: libc::clockid_t, ts: *mut libc::timespec) -> c_int {
    let tid = match active_tid() {
        Some(t) => t,
        None => return libc::syscall(libc::SYS_clock_gettime, clk as c_long, ts) as c_int,
    };
    maybe_init();
    let _g = BypassGuard::new();
    let mut g = SIM.lock().unwrap_or_else(|e| e.into_inner());
    let st = match g.as_mut() {
        Some(st) => st,
        None => return libc::syscall(libc::SYS_clock_gettime, clk as c_long, ts) as c_int,
    };
    // a logical clock: origin + 1 ms per reading
    st.clock_ticks += 1;
    let ms = st.clock_ticks;
    if !ts.is_null() {
        (*ts).tv_sec = (st.clock_origin + ms / 1000) as libc::time_t;
        (*ts).tv_nsec = ((ms % 1000) * 1_000_000) as c_long;
    }
    record(st, tid, Call::Clock, "<clock>", clk as i64, 0, 0, -1);
    0
}

#[no_mangle]
pub unsafe extern "C" fn gettimeofday(tv: *mut libc::timeval, _tz: *mut c_void) -> c_int {
    let mut ts = libc::timespec { tv_sec: 0, tv_nsec: 0 };
    let r = clock_gettime(libc::CLOCK_REALTIME, &mut ts);
    if r == 0 && !tv.is_null() {
        (*tv).tv_sec = ts.tv_sec;
        (*tv).tv_usec = (ts.tv_nsec / 1000) as libc::suseconds_t;
    }
    r
}

#[no_mangle]
pub unsafe extern "C" fn time(t: *mut libc::time_t) -> libc::time_t {
    let mut ts = libc::timespec { tv_sec: 0, tv_nsec: 0 };
    clock_gettime(libc::CLOCK_REALTIME, &mut ts);
    if !t.is_null() {
        *t = ts.tv_sec;
    }
    ts.tv_sec
}

// ---------------------------------------------------------------------------------------------
// preload form: configuration from the file named by SIMLIBC_CONF
// ---------------------------------------------------------------------------------------------
//
// conf lines (space separated; the target is the rest of the line and may contain spaces):
//   root <abs path>
//   trace <abs path>
//   budget <n> | readcap <n> | writecap <n> | hashseed <n> | clock <n>
//   rule <call> <nth> <errno|limit|shortby|zero> <arg> <target...>

#[cfg(simlibc_preload)]
static INIT: std::sync::Once = std::sync::Once::new();

#[cfg(not(simlibc_preload))]
#[inline]
fn maybe_init() {}

#[cfg(simlibc_preload)]
fn maybe_init() {
    INIT.call_once(|| {
        let _g = BypassGuard::new();
        let conf = match std::env::var("SIMLIBC_CONF") {
            Ok(c) => c,
            Err(_) => return,
        };
        let text = match std::fs::read_to_string(&conf) {
            Ok(t) => t,
            Err(_) => return,
        };
        if let Some(st) = parse_conf(&text) {
            *SIM.lock().unwrap_or_else(|e| e.into_inner()) = Some(st);
        }
    });
}

#[cfg(simlibc_preload)]
#[used]
#[link_section = ".init_array"]
static PRELOAD_CTOR: extern "C" fn() = {
    extern "C" fn ctor() {
        // become subject before main() runs, and read the configuration now so that the trace
        // descriptor is moved away before the program opens anything
        ALL_THREADS.store(true, Ordering::Relaxed);
        maybe_init();
    }
    ctor
};

pub fn parse_conf(text: &str) -> Option<SimState> {
    let mut st = SimState::new("");
    st.keep_trace = false;
    st.stdio_subject = true;
    for line in text.lines() {
        let mut it = line.splitn(2, ' ');
        let key = it.next().unwrap_or("");
        let rest = it.next().unwrap_or("");
        match key {
            "root" => st.root = rest.trim_end_matches('/').to_string(),
            "root2" => st.root2 = rest.trim_end_matches('/').to_string(),
            "tracefd" => {
                let fd: c_int = rest.trim().parse().ok()?;
                // move it out of the way of the descriptors the program will get
                let hi = unsafe { libc::syscall(libc::SYS_fcntl, fd as c_long, libc::F_DUPFD_CLOEXEC as c_long, 700 as c_long) } as c_int;
                if hi >= 0 {
                    unsafe { libc::syscall(libc::SYS_close, fd as c_long) };
                    st.trace_fd = hi;
                } else {
                    st.trace_fd = fd;
                }
            }
            "trace" => {
                let c = std::ffi::CString::new(rest).ok()?;
                let fd = unsafe {
                    do_open(
                        c.as_ptr(),
                        libc::O_WRONLY | libc::O_CREAT | libc::O_TRUNC | libc::O_CLOEXEC,
                        0o644,
                    )
                };
                if fd >= 0 {
                    // move it out of the way of the descriptors the program will get
                    let hi = unsafe { libc::syscall(libc::SYS_fcntl, fd as c_long, libc::F_DUPFD_CLOEXEC as c_long, 700 as c_long) } as c_int;
                    if hi >= 0 {
                        unsafe { libc::syscall(libc::SYS_close, fd as c_long) };
                        st.trace_fd = hi;
                    } else {
                        st.trace_fd = fd;
                    }
                }
            }
            "budget" => st.budget = rest.trim().parse().ok()?,
            "readcap" => st.read_cap = rest.trim().parse().ok()?,
            "writecap" => st.write_cap = rest.trim().parse().ok()?,
            "hashseed" => st.hash_seed = rest.trim().parse().ok()?,
            "clock" => st.clock_origin = rest.trim().parse().ok()?,
            "rule" => {
                let mut f = rest.splitn(5, ' ');
                let call = Call::from_name(f.next()?)?;
                let nth: i64 = f.next()?.parse().ok()?;
                let kind = f.next()?;
                let arg: i64 = f.next()?.parse().ok()?;
                let target = f.next()?;
                let action = match kind {
                    "errno" => Action::Errno(arg as i32),
                    "limit" => Action::Limit(arg as usize),
                    "shortby" => Action::ShortBy(arg as usize),
                    "zero" => Action::Zero,
                    _ => return None,
                };
                st.rules.push(Rule::new(call, target, nth, action));
            }
            _ => {}
        }
    }
    Some(st)
}

pub fn conf_line(r: &Rule) -> String {
    let (k, a) = match r.action {
        Action::Errno(e) => ("errno", e as i64),
        Action::Limit(n) => ("limit", n as i64),
        Action::ShortBy(n) => ("shortby", n as i64),
        Action::Zero => ("zero", 0),
    };
    format!("rule {} {} {} {} {}", r.call.name(), r.nth, k, a, r.target)
}

/// Parse a trace file written by the preload form.
pub fn parse_trace(text: &str) -> Vec<Event> {
    let mut out = vec![];
    for line in text.lines() {
        let mut f = line.splitn(8, ' ');
        let mut next = || f.next().unwrap_or("");
        let seq = next().parse().unwrap_or(0);
        let tid = next().parse().unwrap_or(0);
        let call = match Call::from_name(next()) {
            Some(c) => c,
            None => continue,
        };
        let req = next().parse().unwrap_or(0);
        let ret = next().parse().unwrap_or(0);
        let errno = next().parse().unwrap_or(0);
        let rule = next().parse().unwrap_or(-1);
        let path = next().to_string();
        out.push(Event { seq, tid, call, path, req, ret, errno, rule });
    }
    out
}
