//! The token scheduler for caller threads (DESIGN.md 3.3) and the extern symbol that the
//! cfg-guarded hooks in /repo call.

use std::sync::atomic::{AtomicUsize, Ordering};

/// fn(site) installed by the multibuild engine while a scheduled run is in progress; 0 = none.
pub static HOOK_SINK: AtomicUsize = AtomicUsize::new(0);

/// Called by avra_lib at its guarded scheduling points (src/verif_hook.rs in /repo).
#[no_mangle]
pub extern "C" fn avra_rs_verif_yield(site: u32) {
    let h = HOOK_SINK.load(Ordering::Acquire);
    if h != 0 && crate::simlibc::active_tid().is_some() {
        let f: fn(u32) = unsafe { std::mem::transmute::<usize, fn(u32)>(h) };
        crate::simlibc::bypass(|| f(site));
    }
}
