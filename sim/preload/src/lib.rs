//! libsimpreload.so: simlibc as an LD_PRELOAD library for the unmodified avra-rs binary
//! (engine cli, DESIGN.md 3.1). Built with `--cfg simlibc_preload`.
#[path = "../../simlibc/core.rs"]
pub mod simlibc;
