//! Engine `hexio` (C07): the HEX writers on a simulated disk (DESIGN.md 5.1).
//!
//! System: avra_lib::writer::write_code_hex / write_eeprom_hex, real code, in-process, called
//! with a synthetic BuildResult; the file lands on the scratch disk through simlibc.
//! Oracle: the independent reader of hexread.rs. Fault-free: Ok and exact. Under faults: Err is
//! acceptable, Ok implies exact; the call ends within a step budget.

use crate::common::*;
use crate::hexread;
use crate::rng::{fnv, mix, Rng};
use crate::simlibc::{Call, SimState};
use avra_lib::builder::BuildResult;
use serde::{Deserialize, Serialize};
use serde_json::{json, Value};
use std::path::PathBuf;

pub const MAX_FLASH: usize = 524_288; // ATmega2560: 262144 words

#[derive(Serialize, Deserialize, Clone, Debug)]
pub struct Scenario {
    pub engine: String,
    /// "code" or "eeprom"
    pub writer: String,
    pub len: usize,
    /// "random" | "zero" | "ff" | "addr"
    pub fill: String,
    pub fill_seed: u64,
    /// size of a file already at the output path (0 = none)
    pub pre_existing: usize,
    /// what is at the output path before the call besides `pre_existing`: "" (nothing or the
    /// stale file), "dir" (a directory: the call cannot succeed), "symlink" (a symbolic link to a
    /// stale file elsewhere), "dangling" (a symbolic link to nothing)
    #[serde(default)]
    pub pre_kind: String,
    pub write_cap: usize,
    pub rules: Vec<RuleSpec>,
    /// RLIMIT_FSIZE during the call: the kernel's own "disk full at byte n"
    pub fsize_limit: Option<u64>,
    pub hash_seed: u64,
    /// an earlier call of the same writer on the same caller thread that fails: "is-directory",
    /// "missing-dir", "write-enospc" (another path), "same-path-enospc" (this very output) - state
    /// a failed call leaves behind must not reach this one
    #[serde(default)]
    pub prior_failed_call: Option<String>,
    /// an earlier *successful* call of the same writer on the same caller thread with the same
    /// `BuildResult` value, whose image bytes (public fields) are then patched in place - same
    /// buffers, same lengths, other contents - before the judged call (a serial number written
    /// into the image between two files; anything keyed by the identity of the buffers goes stale)
    #[serde(default)]
    pub prior_ok_patched: bool,
    /// a configuration knob the code under test was seen to read from the environment (a name
    /// outside the usual ones, recorded by the seam) set to this value for the judged call: the
    /// property holds for every setting - Err is acceptable, Ok implies an exactly right file
    #[serde(default)]
    pub knob: Option<(String, String)>,
    /// a second caller thread inside a writer at the same time (own image, own path), both
    /// under the token scheduler with yield points at every intercepted libc call
    #[serde(default)]
    pub duo: Option<Duo>,
    /// "sweep" (enumerated length, fault-free), "free" (seeded, fault-free), "cap", "enum"
    /// (single fault at an enumerated position), "pair", "open", "fsize"
    pub config: String,
    /// the output path below the scratch root (a raw byte is written as U+F800+byte, see
    /// common::os): names without an extension, with several dots, with blanks, not UTF-8
    #[serde(default = "out_default")]
    pub out_rel: String,
    /// the directory the output goes to does not exist (Err, or Ok with the file exactly right
    /// from a writer that creates it); with a second caller both outputs go below it, and a call
    /// that succeeds when it runs alone must succeed next to the other one
    #[serde(default)]
    pub missing_parent: bool,
    /// a file next to the output whose name is the output's plus this suffix (".lock", ".tmp",
    /// ".bak", "~"): what a killed run of some tool may have left; nobody holds it
    #[serde(default)]
    pub stale_sibling: Option<String>,
    /// TMPDIR points at the directory the output goes to (a build directory used for everything)
    #[serde(default)]
    pub tmpdir_is_outdir: bool,
}
fn out_default() -> String {
    OUT_REL.to_string()
}

#[derive(Serialize, Deserialize, Clone, Debug)]
pub struct Duo {
    pub writer: String,
    pub len: usize,
    pub fill: String,
    pub fill_seed: u64,
    /// "uniform" | "sticky" | "lockstep"
    pub strategy: String,
    pub sched_seed: u64,
    /// path of the second caller's file below the scratch root; the same stem as the first
    /// caller's with another extension is what a tool writing `fw.hex` and `fw.eep` produces
    #[serde(default = "out2_default")]
    pub path: String,
}
fn out2_default() -> String {
    OUT2_REL.to_string()
}

pub const OUT2_REL: &str = "out/second.hex";

pub fn image(len: usize, fill: &str, seed: u64) -> Vec<u8> {
    let mut v = vec![0u8; len];
    match fill {
        "zero" => {}
        "ff" => v.iter_mut().for_each(|b| *b = 0xFF),
        "addr" => {
            // a pattern in which no byte equals its neighbours at distance 1, 16, 65536
            for (i, b) in v.iter_mut().enumerate() {
                *b = (i as u8) ^ ((i >> 4) as u8).wrapping_mul(7) ^ ((i >> 16) as u8).wrapping_mul(29).wrapping_add((i >> 8) as u8);
            }
        }
        _ => {
            let mut r = Rng::new(seed);
            for chunk in v.chunks_mut(8) {
                let x = r.next_u64().to_le_bytes();
                let n = chunk.len();
                chunk.copy_from_slice(&x[..n]);
            }
            // content patterns on top of the random bytes: what "erased flash", "blank",
            // "compressible" or "looks like a line end" logic would key on
            let mut r = Rng::new(seed ^ 0xF111);
            match fill {
                // a head / a tail of erased (0xFF) or zero cells, of a whole number of records or not
                "ff-head" | "zero-head" => {
                    let b = if fill == "ff-head" { 0xFF } else { 0x00 };
                    let n = (16 * r.range(1, 6) as usize + [0usize, 0, 1, 15][r.usize(4)]).min(len);
                    v[..n].iter_mut().for_each(|x| *x = b);
                    if n < len && v[n] == b {
                        v[n] = 0x42;
                    }
                }
                "ff-tail" | "zero-tail" => {
                    let b = if fill == "ff-tail" { 0xFF } else { 0x00 };
                    let n = (16 * r.range(1, 6) as usize + [0usize, 0, 1, 15][r.usize(4)]).min(len);
                    v[len - n..].iter_mut().for_each(|x| *x = b);
                    if n < len && v[len - n - 1] == b {
                        v[len - n - 1] = 0x42;
                    }
                }
                // whole records of 0xFF / 0x00 in the middle, also right at 64 KiB boundaries
                "holes" => {
                    let lines = len / 16;
                    if lines > 0 {
                        for _ in 0..(1 + lines / 8).min(64) {
                            let l = r.usize(lines);
                            let b = if r.chance(1, 2) { 0xFF } else { 0x00 };
                            let span = r.range(1, 3) as usize;
                            for x in v[l * 16..((l + span) * 16).min(len)].iter_mut() {
                                *x = b;
                            }
                        }
                        for k in 1..=(len / 65536) {
                            if r.chance(1, 2) {
                                let at = k * 65536;
                                for x in v[at.saturating_sub(16)..(at + 16).min(len)].iter_mut() {
                                    *x = 0xFF;
                                }
                            }
                        }
                    }
                }
                // whole aligned 64 KiB blocks of erased (or zero) cells between programmed ones
                "blank-block" => {
                    let blocks = len / 65536;
                    if blocks >= 3 {
                        let b = if r.chance(2, 3) { 0xFF } else { 0x00 };
                        let k = r.range(1, (blocks - 1) as u64 - 0) as usize;
                        let k = k.min(blocks - 2).max(1);
                        for x in v[k * 65536..(k + 1) * 65536].iter_mut() {
                            *x = b;
                        }
                        if blocks >= 5 && r.chance(1, 2) {
                            let k2 = (k + 2).min(blocks - 2);
                            for x in v[k2 * 65536..(k2 + 1) * 65536].iter_mut() {
                                *x = b;
                            }
                        }
                    }
                }
                // bytes that are line ends, the record mark, EOF marks, in text terms
                "lineends" => {
                    let alphabet = [0x0Au8, 0x0D, 0x3A, 0x1A, 0x00, 0xFF, 0x0A, 0x0D];
                    for x in v.iter_mut() {
                        *x = alphabet[r.usize(alphabet.len())];
                    }
                }
                // long runs of equal bytes
                "runs" => {
                    let mut i = 0;
                    while i < len {
                        let n = r.range(1, 70) as usize;
                        let b = r.next_u64() as u8;
                        for x in v[i..(i + n).min(len)].iter_mut() {
                            *x = b;
                        }
                        i += n;
                    }
                }
                _ => {}
            }
        }
    }
    v
}

fn other_image(len: usize, seed: u64) -> Vec<u8> {
    // the image the writer must NOT write: different length, different bytes
    let n = (len % 37) + 3;
    let mut r = Rng::new(seed ^ 0x5555);
    (0..n).map(|_| r.next_u64() as u8 | 0x80).collect()
}

/// The enumerated part of the workload: every length below 600 and every length within a record
/// of each 64 KiB boundary up to the largest flash, both writers (the property's quantifier).
pub fn sweep_lengths(tier: &str) -> Vec<(usize, &'static str)> {
    let mut v = vec![];
    let small: Vec<usize> = (0..600).collect();
    for l in small {
        v.push((l, "code"));
        v.push((l, "eeprom"));
    }
    // beyond the largest device: the default device (no .device) allows 8 MiB of flash, and the
    // 1 MiB boundary is where segment addressing ends
    let big: Vec<usize> = if tier == "thorough" {
        let mut b: Vec<usize> = (-17i64..=17).map(|d| (0x10_0000 + d) as usize).collect();
        b.extend([0x10_0000 + 65536, 0x10_0000 + 65537, 0x11_0000 - 1, 0x20_0000 - 1, 0x20_0000, 0x20_0000 + 1, 0x20_0000 + 17, 0x40_0000 + 3, 0x80_0000 - 16, 0x80_0000 - 5, 0x80_0000]);
        b
    } else {
        vec![0x10_0000 - 1, 0x10_0000, 0x10_0000 + 1, 0x10_0000 + 16, 0x10_0000 + 17, 0x10_0000 + 65536 + 5]
    };
    for l in big {
        v.push((l, "code"));
        if l <= 0x10_0000 + 17 && (tier == "thorough" || l % 2 == 1) {
            v.push((l, "eeprom"));
        }
    }
    let js: Vec<usize> = if tier == "thorough" { (1..=8).collect() } else { vec![1, 2, 8] };
    for j in js {
        let b = j * 65536;
        let deltas: Vec<i64> = if tier == "thorough" { (-17..=17).collect() } else { vec![-17, -16, -15, -1, 0, 1, 15, 16, 17] };
        for d in deltas {
            let l = b as i64 + d;
            if l as usize <= MAX_FLASH {
                v.push((l as usize, "code"));
                if tier == "thorough" || d.abs() <= 1 {
                    v.push((l as usize, "eeprom"));
                }
            }
        }
    }
    v
}

const FAULT_ACTIONS: &[&str] = &["ENOSPC", "EIO", "short-by-1", "short-to-1", "EINTR", "EINTRx3", "zero", "EDQUOT", "EFBIG"];

fn fault_rules(action: &str, target: &str, pos: i64) -> Vec<RuleSpec> {
    match action {
        "ENOSPC" | "EIO" | "EDQUOT" | "EFBIG" => vec![RuleSpec::errno("write", target, pos, action, "write-fail")],
        "short-by-1" => vec![RuleSpec::shortby("write", target, pos, 1, "write-short")],
        "short-to-1" => vec![RuleSpec::limit("write", target, pos, 1, "write-short")],
        "EINTR" => vec![RuleSpec::errno("write", target, pos, "EINTR", "write-eintr")],
        "EINTRx3" => (0..3).map(|k| RuleSpec::errno("write", target, pos + k, "EINTR", "write-eintr")).collect(),
        "zero" => vec![RuleSpec::zero("write", target, pos, "write-zero")],
        _ => vec![],
    }
}

const OPEN_ERRNOS: &[&str] = &["ENOENT", "EACCES", "EROFS", "EMFILE", "ENFILE", "ENOSPC", "EISDIR", "ELOOP", "ENAMETOOLONG", "EIO"];

fn pick_len(r: &mut Rng, small_only: bool) -> usize {
    let c = if small_only { r.below(3) } else { r.below(10) };
    match c {
        0 => [0usize, 1, 2, 15, 16, 17, 31, 32, 33][r.usize(9)],
        1 | 2 => r.range(1, 600) as usize,
        3 | 4 => {
            let k = r.range(1, 40) as i64;
            (16 * k + r.range(0, 34) as i64 - 17).max(0) as usize
        }
        5 | 6 => {
            let j = r.range(1, 8) as i64;
            ((65536 * j + r.range(0, 34) as i64 - 17) as usize).min(MAX_FLASH)
        }
        7 => r.range(600, 70_000) as usize,
        8 => r.range(70_000, MAX_FLASH as u64) as usize,
        _ => MAX_FLASH - r.usize(40),
    }
}

/// Scenario number g of a check run: the first part enumerates the sweep, the rest is seeded.
/// Faulted scenarios get their fault position from a profile run, so generation needs `prof`.
pub fn scenario_shape(tier: &str, base_seed: u64, g: u64) -> Scenario {
    let sweep = sweep_lengths(tier);
    let seed = mix(base_seed, &[0xC07, g]);
    let mut r = Rng::new(seed);
    let fills = ["random", "addr", "random", "zero", "ff", "addr", "ff-head", "ff-tail", "zero-head", "zero-tail", "holes", "lineends", "runs", "ff-head", "holes", "blank-block"];
    if (g as usize) < sweep.len() {
        let (len, w) = sweep[g as usize];
        return Scenario {
            engine: "hexio".into(),
            writer: w.into(),
            len,
            fill: if len >= 65536 { ["addr", "addr", "holes", "ff-head", "ff-tail", "zero-head", "blank-block", "blank-block"][r.usize(8)].into() } else { fills[r.usize(fills.len())].into() },
            fill_seed: seed,
            pre_existing: if r.chance(1, 4) { len * 4 + 100 } else { 0 },
            pre_kind: String::new(),
            write_cap: 0,
            rules: vec![],
            fsize_limit: None,
            hash_seed: seed,
            prior_failed_call: None,
            prior_ok_patched: false,
            knob: None,
            duo: None,
            config: "sweep".into(),
            out_rel: OUT_REL.to_string(),
            missing_parent: false,
            stale_sibling: None,
            tmpdir_is_outdir: false,
        };
    }
    let writer = if r.chance(1, 2) { "code" } else { "eeprom" };
    let fill = fills[r.usize(fills.len())];
    let cfgs = ["free", "cap", "enum", "enum", "enum", "pair", "open", "fsize", "enum", "cap", "duo"];
    let config = cfgs[r.usize(cfgs.len())];
    let small = matches!(config, "enum" | "fsize");
    let mut len = pick_len(&mut r, small);
    let mut write_cap = 0;
    if config == "duo" {
        len = r.range(1, 3000) as usize;
        write_cap = [0usize, 45, 512, 4096][r.usize(4)];
    }
    match config {
        "cap" | "enum" | "pair" | "fsize" => {
            let caps = [1usize, 7, 16, 45, 4096, 0, 45, 4096];
            write_cap = caps[r.usize(caps.len())];
            // keep the call count bounded: a cap of c on a file of ~2.8*len bytes
            if write_cap > 0 && write_cap < 16 && len > 300 {
                len = r.range(0, 300) as usize;
            }
            if write_cap > 0 && write_cap < 4096 && len > 20_000 {
                write_cap = 4096;
            }
            if config == "cap" && write_cap == 0 {
                write_cap = 45;
            }
        }
        _ => {}
    }
    let mut sc = Scenario {
        engine: "hexio".into(),
        writer: writer.into(),
        len,
        fill: fill.into(),
        fill_seed: seed,
        pre_existing: if r.chance(1, 3) { len * 4 + 64 + r.usize(100) } else { 0 },
        pre_kind: match r.below(16) {
            0 => "dir".into(),
            1 => "symlink".into(),
            2 => "dangling".into(),
            // what an earlier run left: the right file cut short (before the end-of-file record,
            // at a record boundary, anywhere), with one record at another address, or intact
            3 | 4 => ["near:no-eof", "near:cut-record", "near:cut-byte", "near:addr-shift", "near:exact", "near:no-eof"][r.usize(6)].to_string(),
            _ => String::new(),
        },
        write_cap,
        rules: vec![],
        fsize_limit: None,
        hash_seed: seed,
        duo: if config == "duo" {
            Some(Duo {
                writer: if r.chance(1, 2) { "code".into() } else { "eeprom".into() },
                len: r.range(1, 3000) as usize,
                fill: fills[r.usize(fills.len())].to_string(),
                fill_seed: seed ^ 0xD00,
                strategy: ["uniform", "sticky", "lockstep"][r.usize(3)].to_string(),
                sched_seed: seed ^ 0x5C4ED,
                // (the same file name in another directory: a writer that stages its text under
                // the file name somewhere else mixes the two up)
                path: [OUT2_REL, "out/image.eep", "out/image.eep.hex", "out/image", "out/other dir/image.hex"][r.usize(5)].to_string(),
            })
        } else {
            None
        },
        prior_failed_call: if matches!(config, "free" | "cap") && r.chance(1, 2) { Some(["is-directory", "missing-dir", "write-enospc", "same-path-enospc", "same-path-enospc"][r.usize(5)].to_string()) } else { None },
        prior_ok_patched: false,
        knob: None,
        config: config.into(),
        out_rel: if config != "duo" && config != "sweep" && r.chance(1, 4) {
            let raw = raw_byte_char([0xE4u8, 0xFF, 0x80, 0xC3][r.usize(4)]);
            [
                "out/image".to_string(),
                // through a symbolic link to a directory and "..": the kernel leaves the link's
                // target (out/deep/er), a writer that tidies the path textually ends up in out/links
                "out/links/L/../image.hex".to_string(),
                "out/links/L/../image.hex".to_string(),
                "out/fw v1.2.hex".to_string(),
                "out/.hex".to_string(),
                format!("out/Ger{}t.hex", raw),
                format!("out/d{}r/image.eep.hex", raw),
                format!("out/{}", raw),
            ][r.usize(8)]
            .clone()
        } else {
            OUT_REL.to_string()
        },
        missing_parent: false,
        stale_sibling: None,
        tmpdir_is_outdir: false,
    };
    if sc.config != "duo" && r.chance(1, 8) {
        sc.stale_sibling = Some([".lock", ".tmp", ".bak", "~", ".lock"][r.usize(5)].to_string());
    }
    if sc.config != "duo" && r.chance(1, 10) {
        sc.tmpdir_is_outdir = true;
    }
    // one scenario in sixteen (one duo in three) writes below a directory that does not exist
    if sc.config == "duo" && r.chance(1, 3) {
        sc.missing_parent = true;
        sc.out_rel = "out/new dir/deep/image.hex".to_string();
        if let Some(d) = sc.duo.as_mut() {
            d.path = ["out/new dir/deep/second.hex", "out/new dir/other/second.hex", "out/new dir/second.hex"][r.usize(3)].to_string();
        }
        sc.pre_existing = 0;
        sc.pre_kind = String::new();
    } else if matches!(sc.config.as_str(), "free" | "open") && r.chance(1, 12) {
        sc.missing_parent = true;
        sc.out_rel = "out/new dir/deep/image.hex".to_string();
        sc.pre_existing = 0;
        sc.pre_kind = String::new();
    }
    if matches!(sc.config.as_str(), "free" | "cap" | "enum" | "pair") && r.chance(1, 6) {
        sc.prior_ok_patched = true;
    }
    sc
}

pub struct RunOut {
    /// Ok(()) / Err(text) as returned by the writer, or panic text
    pub result: Result<Result<(), String>, String>,
    pub file: Option<Vec<u8>>,
    pub state: SimState,
    /// result and file of the second caller thread (duo)
    pub second: Option<(Result<Result<(), String>, String>, Option<Vec<u8>>)>,
    pub switches: u64,
    /// whether the first and the second caller's call return Ok when each runs alone
    pub alone: Option<(bool, bool)>,
}

pub const OUT_REL: &str = "out/image.hex";

pub fn execute(sc: &Scenario, scratch: &Scratch, budget: u64) -> Result<RunOut, String> {
    scratch.clear();
    std::fs::create_dir_all(scratch.path("out")).map_err(|e| e.to_string())?;
    // what each call does when it runs alone (only asked for two callers below a missing directory)
    let alone = match &sc.duo {
        Some(duo) if sc.missing_parent => {
            let mut a = sc.clone();
            a.duo = None;
            let mut b = a.clone();
            b.writer = duo.writer.clone();
            b.len = duo.len;
            b.fill = duo.fill.clone();
            b.fill_seed = duo.fill_seed;
            b.out_rel = duo.path.clone();
            let ra = execute(&a, scratch, budget)?;
            let rb = execute(&b, scratch, budget)?;
            Some((matches!(ra.result, Ok(Ok(()))), matches!(rb.result, Ok(Ok(())))))
        }
        _ => None,
    };
    scratch.clear();
    std::fs::create_dir_all(scratch.path("out")).map_err(|e| e.to_string())?;
    if sc.out_rel.contains("/links/L/../") {
        std::fs::create_dir_all(scratch.path("out/deep/er/q")).map_err(|e| e.to_string())?;
        std::fs::create_dir_all(scratch.path("out/links")).map_err(|e| e.to_string())?;
        std::os::unix::fs::symlink(scratch.path("out/deep/er/q"), scratch.path("out/links/L")).map_err(|e| format!("symlink: {}", e))?;
    }
    let out_path: PathBuf = scratch.path("").join(pb(&sc.out_rel));
    if let Some(d) = out_path.parent() {
        if !sc.missing_parent {
            std::fs::create_dir_all(d).map_err(|e| e.to_string())?;
        }
    }
    if sc.pre_existing > 0 {
        // not HEX: a writer that does not truncate leaves an undecodable tail
        let mut junk = Vec::with_capacity(sc.pre_existing);
        while junk.len() < sc.pre_existing {
            junk.extend_from_slice(b"STALE-OUTPUT-FROM-AN-EARLIER-RUN\n");
        }
        junk.truncate(sc.pre_existing);
        std::fs::write(&out_path, &junk).map_err(|e| e.to_string())?;
    }
    match sc.pre_kind.as_str() {
        "dir" => {
            let _ = std::fs::remove_file(&out_path);
            std::fs::create_dir_all(&out_path).map_err(|e| e.to_string())?;
        }
        "symlink" | "dangling" => {
            let _ = std::fs::remove_file(&out_path);
            std::fs::create_dir_all(scratch.path("elsewhere")).map_err(|e| e.to_string())?;
            let target = scratch.path("elsewhere/target.hex");
            if sc.pre_kind == "symlink" {
                std::fs::write(&target, b"STALE-TARGET-OF-THE-LINK, LONGER THAN SMALL OUTPUTS ........................................\n").map_err(|e| e.to_string())?;
            }
            std::os::unix::fs::symlink(&target, &out_path).map_err(|e| e.to_string())?;
        }
        _ => {}
    }
    let img = image(sc.len, &sc.fill, sc.fill_seed);
    let other = other_image(sc.len, sc.fill_seed);
    // the other fields of the BuildResult are those of some device (or of none): the records
    // must not depend on them
    let (fsz, esz, rsz) = {
        let mut r = Rng::new(sc.fill_seed ^ 0x51535);
        let f = [4194304u32, 4194304, 0, 512, 1024, 2048, 4096, 8192, 16384, 32768, 65536, 65536, 262144][r.usize(13)];
        let e = [65536u32, 65536, 0, 64, 128, 256, 512, 1024, 2048, 4096][r.usize(10)];
        let m = [8388608u32, 0, 64, 128, 512, 1024, 4096, 8192, 16384][r.usize(9)];
        (f, e, m)
    };
    let br = if sc.writer == "code" {
        BuildResult { code: img, eeprom: other, flash_size: fsz, eeprom_size: esz, ram_size: rsz, ram_filling: 0, messages: vec![] }
    } else {
        BuildResult { code: other, eeprom: img, flash_size: fsz, eeprom_size: esz, ram_size: rsz, ram_filling: 0, messages: vec![] }
    };
    if let Some(kind) = sc.pre_kind.strip_prefix("near:") {
        // an earlier, healthy run of the same writer with the same image, then the damage
        let (p0, b0) = (out_path.clone(), BuildResult { code: br.code.clone(), eeprom: br.eeprom.clone(), flash_size: br.flash_size, eeprom_size: br.eeprom_size, ram_size: br.ram_size, ram_filling: br.ram_filling, messages: vec![] });
        let is_code0 = sc.writer == "code";
        let _ = std::fs::remove_file(&out_path);
        let ok = std::panic::catch_unwind(std::panic::AssertUnwindSafe(|| if is_code0 { avra_lib::writer::write_code_hex(p0, &b0).is_ok() } else { avra_lib::writer::write_eeprom_hex(p0, &b0).is_ok() })).unwrap_or(false);
        if ok {
            if let Ok(bytes) = std::fs::read(&out_path) {
                let damaged = damage_hex(&bytes, kind, sc.fill_seed);
                std::fs::write(&out_path, damaged).map_err(|e| e.to_string())?;
            }
        }
    }
    if let Some(suffix) = &sc.stale_sibling {
        let mut n = out_path.clone().into_os_string();
        n.push(suffix);
        if let Some(d) = out_path.parent() {
            let _ = std::fs::create_dir_all(d);
        }
        let _ = std::fs::write(PathBuf::from(n), b"left by a run that was killed\n");
    }
    let mut st = SimState::new(&scratch.root_str());
    st.rules = rules_to_sim(&sc.rules)?;
    let prior: Option<(PathBuf, BuildResult)> = match sc.prior_failed_call.as_deref() {
        Some(kind) => {
            let n = (sc.len * 7 + 13) % 400 + 20;
            let pimg = image(n, "random", sc.fill_seed ^ 0x9999);
            let pbr = BuildResult { code: pimg.clone(), eeprom: pimg, flash_size: 4194304, eeprom_size: 65536, ram_size: 8388608, ram_filling: 0, messages: vec![] };
            let p = match kind {
                "is-directory" => {
                    std::fs::create_dir_all(scratch.path("out/adir")).map_err(|e| e.to_string())?;
                    scratch.path("out/adir")
                }
                "missing-dir" => scratch.path("out/nodir/first.hex"),
                // the earlier call goes to the *same* output and dies on its first write: whatever
                // it leaves there or next to it (half a file, a marker) must not stop the next one
                "same-path-enospc" => {
                    st.rules.push(crate::simlibc::Rule::new(Call::Write, &lossy(&sc.out_rel), 0, crate::simlibc::Action::Errno(libc::ENOSPC)));
                    out_path.clone()
                }
                _ => {
                    st.rules.push(crate::simlibc::Rule::new(Call::Write, "out/first.hex", 0, crate::simlibc::Action::Errno(libc::ENOSPC)));
                    scratch.path("out/first.hex")
                }
            };
            Some((p, pbr))
        }
        None => None,
    };
    st.write_cap = sc.write_cap;
    st.hash_seed = sc.hash_seed;
    st.budget = budget;
    let is_code = sc.writer == "code";
    let p2 = out_path.clone();
    let limit = sc.fsize_limit;
    if let Some(duo) = &sc.duo {
        let mut o = execute_duo(sc, duo, scratch, st, br, out_path)?;
        o.alone = alone;
        return Ok(o);
    }
    if let Some((k, v)) = &sc.knob {
        std::env::set_var(k, v);
    }
    let old_tmpdir = std::env::var_os("TMPDIR");
    if sc.tmpdir_is_outdir {
        if let Some(d) = out_path.parent() {
            std::env::set_var("TMPDIR", d);
        }
    }
    let n_scenario_rules = sc.rules.len();
    let patched = sc.prior_ok_patched;
    let earlier = scratch.path("out/earlier.hex");
    let mut br = br;
    let run = run_simulated(st, move || {
        if patched {
            // the same value, other bytes in the same buffers; written elsewhere, not judged
            for b in br.code.iter_mut().chain(br.eeprom.iter_mut()) {
                *b ^= 0x5A;
            }
            let _ = std::panic::catch_unwind(std::panic::AssertUnwindSafe(|| if is_code { avra_lib::writer::write_code_hex(earlier.clone(), &br).is_ok() } else { avra_lib::writer::write_eeprom_hex(earlier.clone(), &br).is_ok() }));
            for b in br.code.iter_mut().chain(br.eeprom.iter_mut()) {
                *b ^= 0x5A;
            }
        }
        if let Some((pp, pbr)) = prior {
            // the result of the earlier call is not judged here; it is expected to fail
            let _ = std::panic::catch_unwind(std::panic::AssertUnwindSafe(|| if is_code { avra_lib::writer::write_code_hex(pp, &pbr).is_ok() } else { avra_lib::writer::write_eeprom_hex(pp, &pbr).is_ok() }));
            // the fault belongs to the earlier call only: a writer that never touched the path
            // itself (it stages the text elsewhere) has not met it, and it must not meet it now
            crate::simlibc::with_state(|st| st.rules.truncate(n_scenario_rules));
        }
        let old = limit.map(|n| set_fsize(Some(n)));
        let r = if is_code { avra_lib::writer::write_code_hex(p2, &br) } else { avra_lib::writer::write_eeprom_hex(p2, &br) };
        let r = r.map_err(|e| e.to_string());
        if let Some(o) = old {
            restore_fsize(o);
        }
        r
    });
    if sc.tmpdir_is_outdir {
        match &old_tmpdir {
            Some(v) => std::env::set_var("TMPDIR", v),
            None => std::env::remove_var("TMPDIR"),
        }
    }
    if let Some((k, _)) = &sc.knob {
        std::env::remove_var(k);
    }
    if limit.is_some() {
        // in case of a panic inside the call
        restore_fsize(libc::RLIM_INFINITY);
    }
    let file = std::fs::read(&out_path).ok();
    Ok(RunOut { result: run.result, file, state: run.state, second: None, switches: 0, alone: None })
}

/// What an interrupted or older run can leave at the output path, made from the right file.
fn damage_hex(bytes: &[u8], kind: &str, seed: u64) -> Vec<u8> {
    let mut r = Rng::new(seed ^ 0xDA3A6E);
    // offsets just after each line end
    let mut bounds: Vec<usize> = bytes.iter().enumerate().filter(|(_, b)| **b == b'\n').map(|(i, _)| i + 1).collect();
    if bounds.last() != Some(&bytes.len()) {
        bounds.push(bytes.len());
    }
    let text = String::from_utf8_lossy(bytes).into_owned();
    match kind {
        "no-eof" => match text.rfind(":00000001FF") {
            Some(p) => bytes[..p].to_vec(),
            None => bytes.to_vec(),
        },
        "cut-record" => {
            if bounds.len() < 2 {
                return vec![];
            }
            bytes[..bounds[r.usize(bounds.len() - 1)]].to_vec()
        }
        "cut-byte" => bytes[..r.usize(bytes.len().max(1))].to_vec(),
        "addr-shift" => {
            // one data record moved by 16 bytes (checksum kept valid)
            let lines: Vec<&str> = text.split_inclusive('\n').collect();
            let data: Vec<usize> = lines.iter().enumerate().filter(|(_, l)| l.len() >= 11 && l.starts_with(':') && &l[7..9] == "00").map(|(i, _)| i).collect();
            if data.is_empty() {
                return bytes.to_vec();
            }
            let k = data[r.usize(data.len())];
            let l = lines[k].trim_end();
            let mut raw: Vec<u8> = (1..l.len() - 1).step_by(2).filter_map(|i| u8::from_str_radix(&l[i..i + 2], 16).ok()).collect();
            if raw.len() < 5 {
                return bytes.to_vec();
            }
            raw.pop(); // checksum
            let addr = (((raw[1] as u16) << 8) | raw[2] as u16).wrapping_add(16);
            raw[1] = (addr >> 8) as u8;
            raw[2] = addr as u8;
            let sum: u8 = raw.iter().fold(0u8, |a, b| a.wrapping_add(*b));
            raw.push(sum.wrapping_neg());
            let newl = format!(":{}{}", raw.iter().map(|b| format!("{:02X}", b)).collect::<String>(), &lines[k][l.len()..]);
            let mut out = String::new();
            for (i, x) in lines.iter().enumerate() {
                out.push_str(if i == k { &newl } else { x });
            }
            out.into_bytes()
        }
        _ => bytes.to_vec(),
    }
}

fn execute_duo(sc: &Scenario, duo: &Duo, scratch: &Scratch, st: SimState, br: BuildResult, out_path: PathBuf) -> Result<RunOut, String> {
    use crate::sched::{Sched, Strategy};
    let img2 = image(duo.len, &duo.fill, duo.fill_seed);
    let other2 = other_image(duo.len, duo.fill_seed);
    let br2 = if duo.writer == "code" {
        BuildResult { code: img2, eeprom: other2, flash_size: 4194304, eeprom_size: 65536, ram_size: 8388608, ram_filling: 0, messages: vec![] }
    } else {
        BuildResult { code: other2, eeprom: img2, flash_size: 4194304, eeprom_size: 65536, ram_size: 8388608, ram_filling: 0, messages: vec![] }
    };
    let out2 = scratch.path(&duo.path);
    if !sc.missing_parent {
        if let Some(d) = out2.parent() {
            let _ = std::fs::create_dir_all(d);
        }
    }
    let strategy = match duo.strategy.as_str() {
        "lockstep" => Strategy::RoundRobin,
        "sticky" => Strategy::Sticky(300),
        _ => Strategy::Uniform,
    };
    let sched = Sched::new(2, strategy, duo.sched_seed);
    crate::simlibc::install(st);
    sched.install();
    let calls: Vec<(bool, PathBuf, BuildResult)> = vec![(sc.writer == "code", out_path.clone(), br), (duo.writer == "code", out2.clone(), br2)];
    let mut handles = vec![];
    for (tid, (is_code, path, b)) in calls.into_iter().enumerate() {
        let sched = sched.clone();
        handles.push(
            std::thread::Builder::new()
                .name(format!("sim{}", tid))
                .stack_size(64 << 20)
                .spawn(move || {
                    crate::simlibc::set_active(Some(tid as u32));
                    crate::simlibc::bypass(|| sched.enter(tid));
                    let r = std::panic::catch_unwind(std::panic::AssertUnwindSafe(|| {
                        let r = if is_code { avra_lib::writer::write_code_hex(path, &b) } else { avra_lib::writer::write_eeprom_hex(path, &b) };
                        r.map_err(|e| e.to_string())
                    }));
                    crate::simlibc::bypass(|| sched.finish(tid));
                    crate::simlibc::set_active(None);
                    r.map_err(panic_text)
                })
                .map_err(|e| e.to_string())?,
        );
    }
    sched.start();
    let sup = sched.supervise(60.0);
    let mut results = vec![];
    for h in handles {
        results.push(h.join().unwrap_or_else(|p| Err(panic_text(p))));
    }
    Sched::uninstall();
    let state = crate::simlibc::uninstall().ok_or("simulator state vanished")?;
    sup?;
    let switches = sched.st.lock().unwrap_or_else(|e| e.into_inner()).switches;
    let second = results.pop().unwrap();
    let first = results.pop().unwrap();
    Ok(RunOut { result: first, file: std::fs::read(&out_path).ok(), state, second: Some((second, std::fs::read(&out2).ok())), switches, alone: None })
}

pub fn set_fsize(n: Option<u64>) -> libc::rlim_t {
    unsafe {
        let mut rl = libc::rlimit { rlim_cur: 0, rlim_max: 0 };
        libc::getrlimit(libc::RLIMIT_FSIZE, &mut rl);
        let old = rl.rlim_cur;
        if let Some(n) = n {
            rl.rlim_cur = n as libc::rlim_t;
            libc::setrlimit(libc::RLIMIT_FSIZE, &rl);
        }
        old
    }
}
pub fn restore_fsize(old: libc::rlim_t) {
    unsafe {
        let mut rl = libc::rlimit { rlim_cur: 0, rlim_max: 0 };
        libc::getrlimit(libc::RLIMIT_FSIZE, &mut rl);
        rl.rlim_cur = old.min(rl.rlim_max);
        libc::setrlimit(libc::RLIMIT_FSIZE, &rl);
    }
}

fn len_class(len: usize) -> &'static str {
    if len == 0 {
        "empty"
    } else if len <= 65536 {
        "le64k"
    } else if len <= 0x10_0000 {
        "gt64k"
    } else {
        "gt1M"
    }
}

fn faulted(sc: &Scenario) -> bool {
    // a directory at the output path is a fault of the environment: the call cannot succeed
    // (a stale marker file next to the output: a writer that honours such markers may refuse
    // visibly; what it may not do is return Ok without the right file)
    !sc.rules.is_empty() || sc.write_cap > 0 || sc.fsize_limit.is_some() || sc.pre_kind == "dir" || sc.missing_parent || sc.stale_sibling.is_some() || sc.knob.is_some()
}

/// Judge one executed scenario. `fired` = a rule fired or the kernel limit bit.
pub fn judge(sc: &Scenario, out: &RunOut, seed: u64) -> Option<Violation> {
    if let (Some((a1, a2)), Some((r2, _))) = (out.alone, &out.second) {
        // nothing is injected here: with another caller at work below the same missing directory
        // each call ends as it ends alone
        let (d1, d2) = (matches!(out.result, Ok(Ok(()))), matches!(r2, Ok(Ok(()))));
        // (the other direction is legitimate: a call that creates the directory lets the other
        // one succeed where it fails alone)
        if sc.rules.is_empty() && sc.write_cap == 0 && sc.fsize_limit.is_none() && ((a1 && !d1) || (a2 && !d2)) {
            return Some(Violation {
                property: "C07".into(),
                engine: "hexio".into(),
                class: "differs-from-the-same-call-alone".into(),
                signature: format!("class=differs-from-the-same-call-alone writer={} len={} duo missing-parent", sc.writer, len_class(sc.len)),
                seed,
                expected: "two callers writing different files below the same missing directory: a call that succeeds alone succeeds next to the other one".into(),
                observed: json!({"alone_ok": [a1, a2], "together_ok": [d1, d2], "first": format!("{:?}", out.result), "second": format!("{:?}", r2), "trace_tail": trace_tail(&out.state.trace, 16)}),
                scenario: serde_json::to_value(sc).unwrap(),
            });
        }
    }
    if let (Some(duo), Some((r2, f2))) = (&sc.duo, &out.second) {
        // the second caller's call is judged like a call of its own
        let mut s2 = sc.clone();
        s2.duo = None;
        s2.writer = duo.writer.clone();
        s2.len = duo.len;
        s2.fill = duo.fill.clone();
        s2.fill_seed = duo.fill_seed;
        s2.out_rel = duo.path.clone();
        let o2 = RunOut { result: r2.clone(), file: f2.clone(), state: SimState::new(""), second: None, switches: 0, alone: None };
        if let Some(mut v) = judge(&s2, &o2, seed) {
            v.signature = format!("{} duo=second-caller", v.signature);
            v.scenario = serde_json::to_value(sc).unwrap();
            return Some(v);
        }
    }
    let img = image(sc.len, &sc.fill, sc.fill_seed);
    let mk = |class: &str, expected: &str, observed: Value| -> Option<Violation> {
        Some(Violation {
            property: "C07".into(),
            engine: "hexio".into(),
            class: class.into(),
            signature: format!("class={} writer={} len={} faults={}{}", class, sc.writer, len_class(sc.len), if faulted(sc) { "yes" } else { "none" }, if sc.duo.is_some() { " duo" } else { "" }),
            seed,
            expected: expected.into(),
            observed,
            scenario: serde_json::to_value(sc).unwrap(),
        })
    };
    let tail = trace_tail(&out.state.trace, 12);
    if out.state.budget_hit {
        return mk(
            "no-progress",
            "the call returns within 4 x (fault-free call count) + 64 intercepted calls",
            json!({"steps": out.state.steps, "trace_tail": tail}),
        );
    }
    match &out.result {
        Err(panic) => {
            if faulted(sc) && out.state.fired_total > 0 {
                // a panic under an injected hard fault is a visible failure, not a wrong file;
                // counted by the caller, not a C07 violation
                if sc.rules.iter().all(|r| r.is_benign()) && sc.fsize_limit.is_none() {
                    return mk("panic-on-benign-fault", "short writes and EINTR are legal kernel behaviour: Ok with an exact file, or Err", json!({"panic": panic, "trace_tail": tail}));
                }
                return None;
            }
            mk("panic", "the writer returns Ok for every image", json!({"panic": panic, "trace_tail": tail}))
        }
        Ok(Err(e)) => {
            if !faulted(sc) {
                return mk("err-without-fault", "Ok on a healthy disk", json!({"error": e, "trace_tail": tail}));
            }
            None
        }
        Ok(Ok(())) => {
            let file = match &out.file {
                Some(f) => f,
                None => return mk("ok-but-no-file", "Ok implies the file exists and decodes to the image", json!({"trace_tail": tail})),
            };
            let verdict = hexread::decode(file).and_then(|d| hexread::matches_image(&d, &img));
            match verdict {
                Ok(()) => None,
                Err(why) => {
                    let class = "ok-but-wrong-file";
                    let head: String = String::from_utf8_lossy(&file[..file.len().min(200)]).into_owned();
                    mk(
                        class,
                        "Ok implies: well-formed records, valid checksums, one EOF record, every image byte once at its address, none elsewhere",
                        json!({"reader_says": why, "file_len": file.len(), "file_head": head, "trace_tail": tail}),
                    )
                }
            }
        }
    }
}

fn state_hash(sc: &Scenario, out: &RunOut) -> u64 {
    let fired: Vec<String> = sc.rules.iter().zip(out.state.rules.iter()).filter(|(_, r)| r.fired > 0).map(|(s, _)| s.short()).collect();
    fnv(format!("{}|{}|{}|{}|{:?}|{:?}", sc.writer, sc.len, sc.write_cap, sc.pre_existing > 0, fired, sc.fsize_limit).as_bytes())
}

/// Complete a scenario shape into a concrete faulted scenario using a profile run.
fn place_faults(sc: &mut Scenario, prof: &RunOut, r: &mut Rng) {
    let writes: Vec<&crate::simlibc::Event> = prof.state.trace.iter().filter(|e| e.call == Call::Write).collect();
    let nwrites = writes.len() as i64;
    let file_len = prof.file.as_ref().map(|f| f.len()).unwrap_or(0) as u64;
    match sc.config.as_str() {
        "enum" => {
            if nwrites == 0 {
                return;
            }
            // bias towards the last two calls (the final CRLF write) and the first
            let pos = match r.below(6) {
                0 => nwrites - 1,
                1 => (nwrites - 2).max(0),
                2 => 0,
                _ => r.below(nwrites as u64) as i64,
            };
            let a = FAULT_ACTIONS[r.usize(FAULT_ACTIONS.len())];
            sc.rules = fault_rules(a, &lossy(&sc.out_rel), pos);
        }
        "pair" => {
            if nwrites == 0 {
                return;
            }
            for _ in 0..2 {
                let pos = r.below(nwrites as u64 + 2) as i64;
                let a = FAULT_ACTIONS[r.usize(FAULT_ACTIONS.len())];
                sc.rules.extend(fault_rules(a, &lossy(&sc.out_rel), pos));
            }
        }
        "open" => {
            let e = OPEN_ERRNOS[r.usize(OPEN_ERRNOS.len())];
            sc.rules = vec![RuleSpec::errno("open", &lossy(&sc.out_rel), 0, e, "open-fail")];
            // a tree that takes an advisory lock on the output finds it busy half of the time
            if prof.state.trace.iter().any(|e| e.call == Call::Flock) && r.chance(1, 2) {
                sc.rules = vec![RuleSpec::errno("flock", &lossy(&sc.out_rel), 0, "EAGAIN", "lock-busy")];
            }
        }
        "fsize" => {
            if file_len > 0 {
                sc.fsize_limit = Some(r.below(file_len));
            }
        }
        _ => {}
    }
}

pub fn worker(cfg: &WorkerCfg, emit: &mut dyn FnMut(Violation)) -> Stats {
    let mut stats = Stats::default();
    let scratch = match Scratch::new(&format!("hexio-w{:02}", cfg.worker)) {
        Ok(s) => s,
        Err(e) => {
            stats.harness_errors.push(format!("scratch: {}", e));
            return stats;
        }
    };
    unsafe {
        libc::signal(libc::SIGXFSZ, libc::SIG_IGN);
    }
    let start = now_secs();
    let mut found = 0usize;
    let total = cfg.digest_only.unwrap_or(cfg.total);
    let sweep_n = sweep_lengths(&cfg.tier).len() as u64;
    let mut g = cfg.worker;
    while g < total {
        if cfg.digest_only.is_none() && now_secs() - start > cfg.deadline_secs && g >= sweep_n {
            stats.count("stopped_by_deadline", 1);
            break;
        }
        let seed = mix(cfg.base_seed, &[0xC07, g]);
        let mut r = Rng::new(seed ^ 0xFA17);
        let mut sc = scenario_shape(&cfg.tier, cfg.base_seed, g);
        if cfg.digest_only.is_some() && (g as usize) < sweep_n as usize {
            // the self-check is about faulted runs too: use the seeded part of the space
            sc = scenario_shape(&cfg.tier, cfg.base_seed, g + sweep_n);
        }
        stats.first_seed.get_or_insert(seed);
        stats.last_seed = Some(seed);
        // profile run (fault-free except for the cap, which shapes the call sequence)
        let needs_profile = matches!(sc.config.as_str(), "enum" | "pair" | "fsize");
        let mut budget = u64::MAX;
        let mut prof_digest = None;
        if needs_profile {
            let mut p = sc.clone();
            p.rules.clear();
            p.fsize_limit = None;
            match execute(&p, &scratch, u64::MAX) {
                Ok(prof) => {
                    budget = 4 * prof.state.steps + 64;
                    if let Some(v) = judge(&p, &prof, seed) {
                        // the profile itself violates (fault-free or cap-only): report that
                        found += 1;
                        emit(v);
                    }
                    place_faults(&mut sc, &prof, &mut r);
                    prof_digest = Some(canon_event_lines(&prof.state.trace));
                }
                Err(e) => {
                    stats.harness_errors.push(e);
                    break;
                }
            }
        } else if sc.config == "open" {
            place_faults(&mut sc, &RunOut { result: Ok(Ok(())), file: None, state: SimState::new(""), second: None, switches: 0, alone: None }, &mut r);
        }
        if faulted(&sc) && budget == u64::MAX {
            budget = 16 * (sc.len as u64 * 3 / sc.write_cap.max(1) as u64 + 64) + 64;
        }
        let out = match execute(&sc, &scratch, budget) {
            Ok(o) => o,
            Err(e) => {
                stats.harness_errors.push(e);
                break;
            }
        };
        stats.runs += 1;
        stats.steps += out.state.steps;
        if !faulted(&sc) {
            stats.fault_free_runs += 1;
        }
        let mut any_fired = false;
        for (k, n) in fired_kinds(&out.state, &sc.rules) {
            for _ in 0..n {
                stats.fired(&k);
            }
            any_fired = true;
        }
        if sc.write_cap > 0 && out.state.trace.iter().any(|e| e.call == Call::Write && e.ret >= 0 && e.ret < e.req) {
            stats.fired("write-cap");
            any_fired = true;
        }
        if sc.fsize_limit.is_some() && out.state.trace.iter().any(|e| e.call == Call::Write && (e.errno == libc::EFBIG || (e.ret >= 0 && e.ret < e.req))) {
            stats.fired("rlimit-fsize");
            any_fired = true;
        }
        if any_fired {
            stats.runs_with_fired_fault += 1;
        }
        // determinism: up to the first fired rule the faulted trace equals the profile's
        if let Some(pl) = &prof_digest {
            let fl: Vec<String> = canon_event_lines(&out.state.trace);
            let first_fired = out.state.trace.iter().position(|e| e.rule != -1 || e.errno != 0 || (e.call == Call::Write && e.ret != e.req.min(if sc.write_cap > 0 { sc.write_cap as i64 } else { i64::MAX }))).unwrap_or(fl.len());
            let n = first_fired.min(pl.len()).min(fl.len());
            if pl[..n] != fl[..n] {
                stats.count("profile_prefix_divergences", 1);
                stats.warnings.push(format!("faulted trace diverges from its profile before the first fault (g={})", g));
            }
            stats.count("profile_prefix_checks", 1);
        }
        // (an error text may name the output, whose path differs from worker to worker)
        let od = fnv(format!("{:?}|{:?}", out.result, out.file.as_ref().map(|f| fnv(f))).replace(&scratch.root_str(), "$R").as_bytes());
        stats.outcome_digests.insert(g, od);
        stats.digests.insert(g, trace_digest(&out.state.trace) ^ od);
        // probes
        let nwrites = out.state.trace.iter().filter(|e| e.call == Call::Write).count();
        stats.probe("image_crosses_64k", sc.len > 65536);
        stats.probe("image_at_64k_boundary_within_a_record", sc.len >= 65536 && (sc.len % 65536 <= 17 || sc.len % 65536 >= 65536 - 17));
        stats.probe("last_record_short", sc.len % 16 != 0);
        stats.probe("empty_image", sc.len == 0);
        stats.probe("write_split_3_or_more_ways", nwrites >= 4);
        stats.probe("fault_on_final_crlf_write", out.state.trace.iter().any(|e| e.call == Call::Write && e.rule >= 0 && e.req == 2));
        stats.probe("pre_existing_longer_file", sc.pre_existing > 0 && sc.pre_kind.is_empty());
        stats.probe("output_path_is_a_directory", sc.pre_kind == "dir");
        stats.probe("output_path_holds_a_damaged_copy_of_the_right_file", sc.pre_kind.starts_with("near:") && sc.pre_kind != "near:exact");
        stats.probe("output_path_is_a_symbolic_link", sc.pre_kind == "symlink" || sc.pre_kind == "dangling");
        stats.probe("two_callers_below_the_same_missing_directory", sc.missing_parent && sc.duo.is_some() && out.switches > 0);
        stats.probe("output_directory_missing", sc.missing_parent);
        stats.probe("stale_marker_file_next_to_the_output", sc.stale_sibling.is_some());
        stats.probe("tmpdir_is_the_output_directory", sc.tmpdir_is_outdir);
        stats.probe("output_name_that_is_not_utf8", has_raw(&sc.out_rel));
        stats.probe("fault_fired_on_an_output_whose_name_is_not_utf8", has_raw(&sc.out_rel) && any_fired);
        stats.probe("output_path_through_a_directory_link_and_dotdot", sc.out_rel.contains("/links/L/../"));
        stats.probe("output_name_without_extension_or_with_inner_dots", sc.out_rel != OUT_REL && !has_raw(&sc.out_rel));
        stats.probe("largest_flash_image", sc.len == MAX_FLASH);
        stats.probe("call_after_a_failed_call_on_the_same_thread", sc.prior_failed_call.is_some());
        stats.probe("call_after_a_successful_call_with_the_same_value_patched_in_place", sc.prior_ok_patched);
        stats.probe("two_caller_threads_inside_the_writers_with_a_switch", sc.duo.is_some() && out.switches > 0);
        stats.probe("image_crosses_1MiB_segment_limit", sc.len > 0x10_0000);
        stats.probe("writer_returned_err_under_fault", matches!(out.result, Ok(Err(_))) && faulted(&sc));
        stats.probe("writer_rode_through_benign_faults", matches!(out.result, Ok(Ok(()))) && any_fired);
        if matches!(out.result, Err(_)) && any_fired {
            stats.panics_under_fault += 1;
        }
        let h = state_hash(&sc, &out);
        stats.distinct_states.insert(fnv(format!("{}|{}|{:?}", len_class(sc.len), sc.writer, sc.rules.iter().map(|r| r.short()).collect::<Vec<_>>()).as_bytes()));
        if any_fired {
            stats.distinct_nontrivial.insert(h);
        } else if sc.config == "sweep" || sc.config == "free" {
            // a fault-free run is non-trivial when it exercises record splitting: distinct by (writer, len)
            if sc.len > 0 {
                stats.distinct_nontrivial.insert(h);
            }
        }
        if stats.samples.is_empty() || (stats.samples.len() < 3 && (any_fired || g % 97 == 0)) {
            stats.samples.push(json!({"scenario": sc, "result": format!("{:?}", out.result), "file_len": out.file.as_ref().map(|f| f.len()), "trace_tail": trace_tail(&out.state.trace, 6)}));
        }
        if let Some(v) = judge(&sc, &out, seed) {
            found += 1;
            emit(v);
            if found >= cfg.max_violations {
                break;
            }
        }
        // configuration knobs: a name outside the usual ones that the code under test asked the
        // environment for - the same scenario once more with the knob set (nothing to do on a
        // tree that reads none)
        let knobs: std::collections::BTreeSet<String> = out.state.trace.iter().filter(|e| e.call == Call::Getenv).map(|e| e.path.clone()).collect();
        if sc.duo.is_none() && sc.knob.is_none() {
            for k in knobs {
                const MENU: &[&str] = &["24", "3", "255", "7", "1", "0", "100", "256", "4096", "20", "true", "yes", "", "-1", "abc", "65536"];
                let mut s2 = sc.clone();
                s2.knob = Some((k, MENU[r.usize(MENU.len())].to_string()));
                let b2 = if budget == u64::MAX { budget } else { budget.saturating_mul(64) };
                match execute(&s2, &scratch, b2) {
                    Ok(o2) => {
                        stats.runs += 1;
                        stats.fired("knob-set");
                        stats.runs_with_fired_fault += 1;
                        stats.probe("configuration_knob_read_from_the_environment_set", true);
                        if let Some(v) = judge(&s2, &o2, seed) {
                            found += 1;
                            emit(v);
                        }
                    }
                    Err(e) => stats.harness_errors.push(e),
                }
            }
        }
        g += cfg.nworkers;
    }
    stats
}

/// Replay one scenario in this process; returns the violation if it reproduces.
pub fn replay(scv: &Value) -> Result<Option<Violation>, String> {
    let sc: Scenario = serde_json::from_value(scv.clone()).map_err(|e| e.to_string())?;
    let scratch = Scratch::new("hexio-w99").map_err(|e| e.to_string())?;
    unsafe {
        libc::signal(libc::SIGXFSZ, libc::SIG_IGN);
    }
    let mut p = sc.clone();
    p.rules.clear();
    p.fsize_limit = None;
    let prof = execute(&p, &scratch, u64::MAX)?;
    let budget = 4 * prof.state.steps + 64;
    let out = execute(&sc, &scratch, budget)?;
    Ok(judge(&sc, &out, 0))
}

/// Smaller variants of a failing scenario, most aggressive first.
pub fn shrink(scv: &Value) -> Vec<Value> {
    let sc: Scenario = match serde_json::from_value(scv.clone()) {
        Ok(s) => s,
        Err(_) => return vec![],
    };
    let mut out = vec![];
    let mut push = |s: Scenario| out.push(serde_json::to_value(s).unwrap());
    // drop fault rules
    if !sc.rules.is_empty() {
        let mut s = sc.clone();
        s.rules.clear();
        push(s);
        for i in 0..sc.rules.len() {
            let mut s = sc.clone();
            s.rules.remove(i);
            push(s);
        }
    }
    if sc.fsize_limit.is_some() {
        let mut s = sc.clone();
        s.fsize_limit = None;
        push(s);
    }
    if sc.write_cap > 0 {
        let mut s = sc.clone();
        s.write_cap = 0;
        push(s);
    }
    if sc.pre_existing > 0 {
        let mut s = sc.clone();
        s.pre_existing = 0;
        push(s);
    }
    if !sc.pre_kind.is_empty() {
        let mut s = sc.clone();
        s.pre_kind = String::new();
        push(s);
    }
    if sc.prior_failed_call.is_some() {
        let mut s = sc.clone();
        s.prior_failed_call = None;
        push(s);
    }
    if sc.prior_ok_patched {
        let mut s = sc.clone();
        s.prior_ok_patched = false;
        push(s);
    }
    if let Some(d) = &sc.duo {
        let mut s = sc.clone();
        s.duo = None;
        push(s);
        for l in [1usize, 16, 17, d.len / 2] {
            if l < d.len {
                let mut s = sc.clone();
                s.duo.as_mut().unwrap().len = l;
                push(s);
            }
        }
    }
    // shorten the image
    let mut cands: Vec<usize> = vec![0, 1, 16, 17, sc.len / 2, sc.len.saturating_sub(65536), sc.len.saturating_sub(16), sc.len.saturating_sub(1)];
    if sc.len > 65536 {
        cands.extend([65536, 65537, 65552, 65553]);
    }
    if sc.len > 0x10_0000 {
        cands.extend([0x10_0000, 0x10_0001, 0x10_0010, 0x10_0011, 0x11_0001]);
    }
    cands.sort();
    cands.dedup();
    for l in cands {
        if l < sc.len {
            let mut s = sc.clone();
            s.len = l;
            if s.pre_existing > 0 {
                s.pre_existing = l * 4 + 64;
            }
            push(s);
        }
    }
    if sc.fill != "addr" {
        let mut s = sc.clone();
        s.fill = "addr".into();
        push(s);
    }
    // canonical seeds and label, so that equal findings minimise to equal scenarios
    if sc.fill_seed != 0 || sc.hash_seed != 0 {
        let mut s = sc.clone();
        s.fill_seed = 0;
        s.hash_seed = 0;
        push(s);
    }
    if !faulted(&sc) && sc.config != "free" {
        let mut s = sc.clone();
        s.config = "free".into();
        push(s);
    }
    // earlier fault positions
    for (i, r) in sc.rules.iter().enumerate() {
        if r.nth > 0 {
            for n in [0, r.nth / 2, r.nth - 1] {
                if n < r.nth {
                    let mut s = sc.clone();
                    s.rules[i].nth = n;
                    push(s);
                }
            }
        }
    }
    out
}
