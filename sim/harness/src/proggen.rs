//! stub
