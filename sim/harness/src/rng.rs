//! The one PRNG of the harness (splitmix64 -> xoshiro256**), written out so that a seed means
//! the same execution on any toolchain. Never used from logging paths.

#[derive(Clone, Debug)]
pub struct Rng {
    s: [u64; 4],
}

pub fn splitmix64(x: &mut u64) -> u64 {
    *x = x.wrapping_add(0x9E3779B97F4A7C15);
    let mut z = *x;
    z = (z ^ (z >> 30)).wrapping_mul(0xBF58476D1CE4E5B9);
    z = (z ^ (z >> 27)).wrapping_mul(0x94D049BB133111EB);
    z ^ (z >> 31)
}

/// Derive an independent seed from a base seed and a list of integers (engine, worker, run...).
pub fn mix(base: u64, parts: &[u64]) -> u64 {
    let mut x = base ^ 0xA076_1D64_78BD_642F;
    let mut acc = splitmix64(&mut x);
    for p in parts {
        x ^= p.wrapping_mul(0xE703_7ED1_A0B4_28DB);
        acc = acc.rotate_left(23) ^ splitmix64(&mut x);
    }
    acc
}

impl Rng {
    pub fn new(seed: u64) -> Rng {
        let mut x = seed;
        let mut s = [0u64; 4];
        for v in s.iter_mut() {
            *v = splitmix64(&mut x);
        }
        if s == [0, 0, 0, 0] {
            s[0] = 1;
        }
        Rng { s }
    }
    pub fn next_u64(&mut self) -> u64 {
        let r = self.s[1].wrapping_mul(5).rotate_left(7).wrapping_mul(9);
        let t = self.s[1] << 17;
        self.s[2] ^= self.s[0];
        self.s[3] ^= self.s[1];
        self.s[1] ^= self.s[2];
        self.s[0] ^= self.s[3];
        self.s[2] ^= t;
        self.s[3] = self.s[3].rotate_left(45);
        r
    }
    /// uniform in 0..n (n > 0)
    pub fn below(&mut self, n: u64) -> u64 {
        debug_assert!(n > 0);
        // multiply-shift; bias is irrelevant at these sizes
        ((self.next_u64() as u128 * n as u128) >> 64) as u64
    }
    pub fn range(&mut self, lo: u64, hi_incl: u64) -> u64 {
        lo + self.below(hi_incl - lo + 1)
    }
    pub fn usize(&mut self, n: usize) -> usize {
        self.below(n as u64) as usize
    }
    pub fn chance(&mut self, num: u64, den: u64) -> bool {
        self.below(den) < num
    }
    pub fn pick<'a, T>(&mut self, xs: &'a [T]) -> &'a T {
        &xs[self.usize(xs.len())]
    }
    pub fn shuffle<T>(&mut self, xs: &mut [T]) {
        for i in (1..xs.len()).rev() {
            let j = self.usize(i + 1);
            xs.swap(i, j);
        }
    }
    pub fn fork(&mut self) -> Rng {
        Rng::new(self.next_u64())
    }
}

/// FNV-1a, for "distinct" counting (scenario shapes, schedules).
pub fn fnv(bytes: &[u8]) -> u64 {
    let mut h = 0xcbf29ce484222325u64;
    for b in bytes {
        h ^= *b as u64;
        h = h.wrapping_mul(0x100000001b3);
    }
    h
}
