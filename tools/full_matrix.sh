#!/bin/bash
# full_matrix.sh <outdir> [shards]   every seeded change x its own check(s), every benign change x all four checks
# Runs in <shards> scratch worktrees in parallel (default 3). Results: <outdir>/seeded.jsonl, <outdir>/benign.jsonl
# ONLY="C07 C18" restricts the run to those checks.
OUTD="$1"; N="${2:-3}"; ONLY="${ONLY:-}"; mkdir -p "$OUTD" /tmp/benign; rm -f "$OUTD"/*.jsonl "$OUTD"/jobs.*
i=0
for d in /verif/seeded/C*/; do
  id=$(basename $d); prop=${id%%-*}
  # its own property's check plus every check recorded as catching it
  checks=$(python3 -c "
import json,sys
m=json.load(open('$d/meta.json')); c={m['property']}|{x['check'] for x in m.get('detection',[]) if x.get('exit')==1}
only=set('$ONLY'.split())
if only: c=c&only
print(' '.join(sorted(c)))")
  [ -z "$checks" ] && continue
  echo "seeded ${d%/} $checks" >> "$OUTD/jobs.$((i % N))"; i=$((i+1))
done
for f in /verif/benign/*.diff; do
  b=$(basename $f .diff); mkdir -p /tmp/benign/dir-$b; cp $f /tmp/benign/dir-$b/patch.diff
  echo "benign /tmp/benign/dir-$b ${ONLY:-C07 C11 C17 C18}" >> "$OUTD/jobs.$((i % N))"; i=$((i+1))
done
for s in $(seq 0 $((N-1))); do
  ( export VERIF_WT=/tmp/wt-matrix-$s
    # every shard works from its own copy of the machinery (own shadow manifest, own build
    # output): checks against different trees must not share a harness binary
    SH=/tmp/verif-shard-$s; rm -rf $SH; mkdir -p $SH
    rsync -a --exclude .build --exclude .git --exclude replays --exclude evidence /verif/ $SH/
    while read kind dir checks; do
      $SH/tools/detect_all.sh "$OUTD/$kind.$s.jsonl" "$dir" $checks
    done < "$OUTD/jobs.$s"
    git -C /repo worktree remove --force /tmp/wt-matrix-$s 2>/dev/null; rm -rf $SH ) &
done
wait
cat "$OUTD"/seeded.*.jsonl > "$OUTD/seeded.jsonl" 2>/dev/null; cat "$OUTD"/benign.*.jsonl > "$OUTD/benign.jsonl" 2>/dev/null
python3 - "$OUTD" <<'PY'
import json,sys
d=sys.argv[1]
miss=[];fa=[]
for l in open(d+'/seeded.jsonl'):
    x=json.loads(l)
    if x['false_alarm_replays']: fa.append(x['dir'])
byd={}
for l in open(d+'/seeded.jsonl'):
    x=json.loads(l); byd.setdefault(x['dir'],[]).append(x['rc'])
for k,v in sorted(byd.items()):
    if 1 not in v: miss.append(k)
print("seeded changes:", len(byd), "not caught:", miss, "replays failing on the unchanged tree:", fa)
al=[]
for l in open(d+'/benign.jsonl'):
    x=json.loads(l)
    if x['rc']!=0: al.append((x['dir'],x['check'],x['rc']))
print("benign runs with a non-zero exit:", al)
PY
