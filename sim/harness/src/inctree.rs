//! Engine `inctree` (C11): including is pasting, and files are found where documented
//! (DESIGN.md 5.2).
//!
//! System: avra_lib::builder::build_file(main, paths), real code, in-process, cwd set to a
//! directory that is no directory of the tree. Reference model: textual paste of the tree with
//! `.exit` truncation and `.includepath` lines blanked, assembled by build_str of the same tree
//! (C11 is relational: bugs of the pure core cancel). Faults: lookup and read path of every file.

use crate::common::*;
use crate::incmodel::{self, basename, parse_include, Flat, World};
use crate::proggen::{self, Node};
use crate::rng::{fnv, mix, Rng};
use crate::simlibc::{Call, Event, SimState};
use serde::{Deserialize, Serialize};
use serde_json::{json, Value};
use std::collections::{BTreeMap, BTreeSet};
use std::path::{Path, PathBuf};

pub const RULE: &str = "Scenario g is drawn from seed mix(VERIF_SEED, g): a logical program (instructions, labels, data, .equ/.set/.def/.undef, #define with .ifdef/.ifndef/.if/.elif/.else, macros, .device, segments, .org, messages; about a third made to fail) is split into a tree of 1-8 files, depth <= 4, cut only between balanced blocks (also inside conditional branches), and each include is given one of the documented locations: path as written (relative to cwd or absolute), directory of the including file or of an ancestor, a caller-supplied directory, an .includepath directory (absolute, or relative to the file containing the directive, which may itself have been found through a search directory; the directive sits before the include, at the top of the file or at the top of an ancestor); .exit with dead lines after it in included files and in main; one file included several times. The result of build_file(tree) is compared with build_str(paste(tree)). Then, inside the call sequence of a fault-free profile run: the file missing, vanishing between stat and open, stat/open/read failures, short reads, read caps 1/3/64, EINTR, a non-UTF-8 byte (quick: one seeded fault per scenario and pairs; thorough: additionally every call x every kind for a share of scenarios), plus re-runs with one used directory taken out of its documented place. Non-trivial: the tree has at least one include that is actually opened; distinct by (tree shape, location-kind vector, fired-rule list, program hash).";

pub const ASSUMPTIONS: &[&str] = &[
    "a reported file size that lies (fault kind size-lie: 0, 1, 7 or 1 MiB, as procfs, pipes and growing files report) is judged leniently: Err is acceptable, Ok implies the fault-free result; a busy advisory lock or any other condition the environment imposes may fail the build visibly",
    "a search directory spelled <link>/../<dir> names what the kernel resolves it to (the link's target is left by the '..'); names holding a backslash or called '~' are ordinary names",
    "the flat side of the comparison is assembled by the same tree's build_str: C11 is a relational property, defects of the pure core cancel and are not this check's business",
    "not generated because the statement leaves them undefined: conditionals or macro definitions spanning a file boundary, a same-named directory shadowing a file, two files of the same name in different search directories, an .includepath of a child relied on by its parent after return, includes inside macro bodies",
    "when an included file is a symbolic link, 'the directory of the including file' is the directory it was found in (the link's), not the directory its bytes live in",
    "messages are compared by their (unique) texts in order always, and with line numbers mapped to the including file's numbering when they have the form '<kind>: <text> in line: <n>'; error texts are not compared (both sides must fail)",
    "under faults: Err is acceptable, a panic is counted but not judged here, Ok implies equality with the fault-free result; short reads and read caps must not change the result; a missing file that the fault-free build opens must fail the build with an error naming the include as written",
    "tree and flat side run under the same simulated hash seed (hash-order dependence is C17's matter)",
    "an include guard `.ifdef X` / `.exit` / `.endif` at the top level of a file is pasted as `.ifndef X` / rest / `.endif`; any other `.exit` inside a conditional makes a scenario not judged",
    "files are regular files, symbolic links to regular files, or (empty includes) character devices that read as nothing; sizes reported for regular files are true",
    "files that appear in an .includepath directory while the build is under way (put there when the parser is about to take a seeded line) are found like files that were there from the start, provided the trace shows no stat or open of one of their names before that moment",
];

#[derive(Serialize, Deserialize, Clone, Debug)]
pub struct Scenario {
    pub engine: String,
    /// path below the scratch root -> text ("$R" in a text stands for the scratch root)
    pub files: BTreeMap<String, String>,
    pub cwd: String,
    /// argument of build_file ("$R/.." absolute, otherwise relative to cwd)
    pub main: String,
    /// scratch-relative path of the main file (for the paste model)
    pub main_file: String,
    pub paths: Vec<String>,
    /// (includer file, child file, location kind) for statistics; kinds: w a p P c i I (see place())
    pub edges: Vec<(String, String, String)>,
    pub rules: Vec<RuleSpec>,
    pub read_cap: usize,
    /// file removed from the disk before the run
    pub missing: Option<String>,
    /// (file, byte offset): byte replaced by 0xFF on the disk
    pub nonutf8: Option<(String, usize)>,
    pub hash_seed: u64,
    /// a second build by the same caller thread after the tree was edited: files written
    /// (path -> text) and removed; the second build is judged against the paste of the edited tree
    #[serde(default)]
    pub then_write: BTreeMap<String, String>,
    #[serde(default)]
    pub then_remove: Vec<String>,
    /// files of the tree that are symbolic links on the disk: link path (a key of `files`) ->
    /// scratch-relative path where the bytes really live (a directory that is searched by nobody).
    /// "The directory of the including file" is read as the directory the file was found in.
    #[serde(default)]
    pub symlinks: BTreeMap<String, String>,
    /// files of the tree (keys of `files`, empty text) that are character devices on the disk - a
    /// copy of the null device: it exists, it is no regular file, reading it yields nothing
    #[serde(default)]
    pub devices: Vec<String>,
    /// directory aliases: symbolic link (scratch-relative) -> the directory it points to (an empty
    /// directory beside a search directory). One caller path or `.includepath` argument is spelled
    /// through it as `<link>/../<dir>`: the kernel leaves the link's *target* with the "..", so the
    /// spelling names the search directory; a tool that tidies paths lexically ends up elsewhere.
    #[serde(default)]
    pub dirlinks: BTreeMap<String, String>,
    /// files (and with them their directories) that are not there when the build starts and
    /// appear - put there by someone else - when the parser is about to take its k-th line:
    /// (files, k). If no lookup of one of their names happened before that moment, the build
    /// ends as it ends with the files there from the start.
    #[serde(default)]
    pub appear: Option<(Vec<String>, u64)>,
    pub intent: String,
    pub config: String,
}

// ---------------------------------------------------------------------------------------------
// outcome of a build, comparable
// ---------------------------------------------------------------------------------------------

#[derive(Serialize, Deserialize, Clone, Debug, PartialEq, Eq)]
pub enum Outcome {
    Built { code: Vec<u8>, eeprom: Vec<u8>, sizes: (u32, u32, u32, u32), messages: Vec<String> },
    Err(String),
    Panic(String),
}

impl Outcome {
    pub fn from(r: Result<Result<avra_lib::builder::BuildResult, String>, String>) -> Outcome {
        match r {
            Ok(Ok(b)) => Outcome::Built { code: b.code, eeprom: b.eeprom, sizes: (b.flash_size, b.eeprom_size, b.ram_size, b.ram_filling), messages: b.messages },
            Ok(Err(e)) => Outcome::Err(e),
            Err(p) => Outcome::Panic(p),
        }
    }
    pub fn short(&self) -> String {
        match self {
            Outcome::Built { code, eeprom, sizes, messages } => format!("Built(code {} B #{:x}, eeprom {} B #{:x}, sizes {:?}, {} messages)", code.len(), fnv(code), eeprom.len(), fnv(eeprom), sizes, messages.len()),
            Outcome::Err(e) => format!("Err({})", e.chars().take(160).collect::<String>()),
            Outcome::Panic(e) => format!("Panic({})", e.chars().take(160).collect::<String>()),
        }
    }
    pub fn fails(&self) -> bool {
        !matches!(self, Outcome::Built { .. })
    }
}

// ---------------------------------------------------------------------------------------------
// workload: split a program into a tree
// ---------------------------------------------------------------------------------------------

struct TreeGen<'a> {
    r: &'a mut Rng,
    /// (dir, name, parent index, lines)
    files: Vec<(String, String, Option<usize>, Vec<String>)>,
    prepend: Vec<Vec<String>>,
    has_children: Vec<bool>,
    leaf_only: Vec<bool>,
    edges: Vec<(usize, usize, String)>,
    caller_dirs: Vec<String>,
    used_caller: BTreeSet<usize>,
    cwd: String,
    /// directory below which this tree's own directories live ("" = the scratch root)
    base: String,
    /// prefix for the names of files found as written relative to the (shared) cwd
    w_prefix: String,
    max_files: usize,
    ip_n: usize,
    twice: Option<usize>,
    twice_uses: usize,
    labels: Vec<String>,
    /// indices of (empty) files that are to be device nodes
    devices: Vec<usize>,
}

fn rel_from(from_dir: &str, to: &str) -> String {
    // relative path from directory `from_dir` to `to` (both scratch-relative, no "." or "..")
    let f: Vec<&str> = from_dir.split('/').filter(|s| !s.is_empty()).collect();
    let t: Vec<&str> = to.split('/').filter(|s| !s.is_empty()).collect();
    let mut c = 0;
    while c < f.len() && c < t.len() && f[c] == t[c] {
        c += 1;
    }
    let mut parts: Vec<String> = (c..f.len()).map(|_| "..".to_string()).collect();
    parts.extend(t[c..].iter().map(|s| s.to_string()));
    if parts.is_empty() {
        ".".to_string()
    } else {
        parts.join("/")
    }
}

impl<'a> TreeGen<'a> {
    fn new_file(&mut self, parent: usize) -> usize {
        let i = self.files.len();
        let ext = ["inc", "inc", "asm", "h"][self.r.usize(4)];
        // now and then the name of another file of the tree is used again: the same name then
        // means different files for different includers (scenarios in which more than one file
        // qualifies for one include are recognised by the model and not judged)
        // Only leaves share names (the holder of the name and the new file include nothing), so
        // whichever file a lookup picks, no include cycle can arise.
        let mut anc = self.ancestors(parent);
        anc.push(parent);
        let reuse: Vec<String> = self.files.iter().enumerate().skip(1).filter(|(j, f)| f.2.is_some() && !anc.contains(j) && !self.has_children[*j]).map(|(_, f)| f.1.clone()).collect();
        let dup = !reuse.is_empty() && self.r.chance(1, 5);
        // one name in fourteen holds a literal backslash - an ordinary character on this system,
        // not a separator: `g\f3.inc` is a file, not `f3.inc` in a directory `g`
        let name = if dup { reuse[self.r.usize(reuse.len())].clone() } else if self.r.chance(1, 14) { format!("g\\f{}.{}", i, ext) } else { format!("f{}.{}", i, ext) };
        self.files.push((String::new(), name, Some(parent), vec![]));
        self.has_children.push(false);
        self.leaf_only.push(dup);
        self.has_children[parent] = true;
        self.prepend.push(vec![]);
        i
    }
    fn ancestors(&self, f: usize) -> Vec<usize> {
        let mut v = vec![];
        let mut c = self.files[f].2;
        while let Some(p) = c {
            v.push(p);
            c = self.files[p].2;
        }
        v
    }
    /// Decide where `child` lives and how `parent` names it. Returns (name as written, lines to
    /// put directly before the include line).
    fn place(&mut self, child: usize, parent: usize) -> (String, Vec<String>) {
        let mut name = self.files[child].1.clone();
        let pdir = self.files[parent].0.clone();
        // a file that ends up in or below the cwd is found "as written" by every tree sharing
        // that cwd: it gets a tree-unique name (a no-op for a tree that lives alone)
        let in_cwd = |d: &str, cwd: &str| d == cwd || d.starts_with(&format!("{}/", cwd));
        let anc_in_cwd = self.ancestors(parent).iter().any(|a| in_cwd(&self.files[*a].0, &self.cwd));
        if !self.w_prefix.is_empty() && (in_cwd(&pdir, &self.cwd) || anc_in_cwd) && !name.starts_with(&self.w_prefix) {
            name = format!("{}{}", self.w_prefix, name);
            self.files[child].1 = name.clone();
        }
        // (one sub-directory in eight is called "~": a name like any other to the kernel, and to
        // an assembler, which is no shell)
        let sub = if self.r.chance(1, 3) { Some(if self.r.chance(1, 8) { "~".to_string() } else { format!("s{}", self.r.below(3)) }) } else { None };
        let dot = self.r.chance(1, 8);
        let with_sub = |d: &str, sub: &Option<String>| -> (String, String) {
            match sub {
                Some(s) => (format!("{}/{}", d, s), format!("{}{}/{}", if dot { "./" } else { "" }, s, name)),
                None => (d.to_string(), format!("{}{}", if dot { "./" } else { "" }, name)),
            }
        };
        let kind = self.r.below(12);
        match kind {
            // path as written, relative to the cwd
            0 | 1 => {
                // found relative to the cwd, which several trees may share: a tree-unique name
                let name = if name.starts_with(&self.w_prefix) { name.clone() } else { format!("{}{}", self.w_prefix, name) };
                self.files[child].1 = name.clone();
                let (dir, written) = match &sub {
                    Some(s) => (format!("{}/{}", self.cwd, s), format!("{}/{}", s, name)),
                    None => (self.cwd.clone(), name.clone()),
                };
                self.files[child].0 = dir;
                self.edges.push((parent, child, "w".into()));
                (written, vec![])
            }
            // path as written, absolute
            2 => {
                let dir = format!("{}abs place/d{}", self.base, self.r.below(2));
                self.files[child].0 = dir.clone();
                self.edges.push((parent, child, "a".into()));
                (format!("$R/{}/{}", dir, name), vec![])
            }
            // directory of the including file
            3 | 4 | 5 => {
                let (dir, written) = with_sub(&pdir, &sub);
                self.files[child].0 = dir;
                self.edges.push((parent, child, "p".into()));
                (written, vec![])
            }
            // directory of an ancestor of the including file
            6 => {
                let anc = self.ancestors(parent);
                if anc.is_empty() {
                    self.files[child].0 = pdir;
                    self.edges.push((parent, child, "p".into()));
                    return (name, vec![]);
                }
                let a = anc[self.r.usize(anc.len())];
                let adir = self.files[a].0.clone();
                let kind = if adir == pdir { "p" } else { "P" };
                self.files[child].0 = adir;
                self.edges.push((parent, child, kind.into()));
                (name, vec![])
            }
            // caller-supplied directory
            7 | 8 => {
                let k = self.r.usize(self.caller_dirs.len());
                self.used_caller.insert(k);
                let (dir, written) = with_sub(&self.caller_dirs[k].clone(), &sub);
                self.files[child].0 = dir;
                self.edges.push((parent, child, "c".into()));
                (written, vec![])
            }
            // .includepath directory
            _ => {
                self.ip_n += 1;
                let ipdir = match self.r.below(3) {
                    0 => format!("{}ip{}", self.base, self.ip_n),
                    1 => format!("{}/ipsub{}", if pdir.is_empty() { "proj".to_string() } else { pdir.clone() }, self.ip_n),
                    _ => format!("{}deep/er/ip{}", self.base, self.ip_n),
                };
                let (dir, written) = with_sub(&ipdir, &sub);
                self.files[child].0 = dir;
                // where does the directive go: before the include, top of this file, top of an ancestor
                let anc = self.ancestors(parent);
                let holder = match self.r.below(4) {
                    0 if !anc.is_empty() => anc[self.r.usize(anc.len())],
                    _ => parent,
                };
                let hdir = self.files[holder].0.clone();
                let absolute = self.r.chance(1, 3);
                let arg = if absolute { format!("$R/{}", ipdir) } else { rel_from(&hdir, &ipdir) };
                let arg = match self.r.below(8) {
                    0 => format!("{}/", arg),
                    1 => format!("{}/.", arg),
                    2 if !absolute => format!("./{}", arg),
                    _ => arg,
                };
                let line = format!(".includepath \"{}\"", arg);
                let kind = if absolute { "I" } else { "i" };
                let kind = if holder != parent { format!("{}^", kind) } else { kind.to_string() };
                self.edges.push((parent, child, kind));
                if holder == parent && self.r.chance(1, 2) {
                    (written, vec![line])
                } else {
                    self.prepend[holder].push(line);
                    (written, vec![])
                }
            }
        }
    }

    fn process(&mut self, nodes: Vec<Node>, file: usize, depth: u32) -> Vec<Node> {
        let mut out: Vec<Node> = vec![];
        let mut i = 0;
        while i < nodes.len() {
            // one leaf file is included from several places
            if self.twice_uses < 3 && self.r.chance(1, 14) {
                let t = match self.twice {
                    Some(t) => t,
                    None => {
                        let t = self.files.len();
                        let k = self.r.usize(self.caller_dirs.len());
                        self.used_caller.insert(k);
                        let mut body = vec!["    inc r4".to_string(), format!("    ldi r20, {}", self.r.below(200)), "    nop ; shared leaf".to_string()];
                        // half of them carry an include guard built on `.exit`: assembled at the
                        // first inclusion only (so the body may define a label)
                        match self.r.below(4) {
                            0 | 1 => {
                                let g = format!("SHARED_LEAF_{}_INCLUDED", t);
                                let mut b = vec![format!(".ifdef {}", g), if self.r.chance(1, 2) { ".exit".to_string() } else { "    .exit".to_string() }, ".endif".to_string(), format!(".define {}", g), format!("shared_leaf_{}:", t)];
                                b.extend(body);
                                body = b;
                            }
                            // the classic guard, closed before the end of the file: what follows it
                            // (ending in another conditional block) is assembled at every inclusion;
                            // or a guard with an else branch
                            2 => {
                                let g = format!("SHARED_LEAF_{}_H", t);
                                let (i, d, e) = if self.r.chance(1, 2) { ("#ifndef", "#define", "#endif") } else { (".ifndef", ".define", ".endif") };
                                let mut b = vec![format!("{} {}", i, g), format!("{} {}", d, g), format!("shared_leaf_{}:", t)];
                                b.extend(body);
                                if self.r.chance(1, 2) {
                                    b.push(if e == "#endif" { "#else".to_string() } else { ".else".to_string() });
                                    b.push("    dec r4 ; every later inclusion".to_string());
                                    b.push(e.to_string());
                                } else {
                                    b.push(e.to_string());
                                    b.push("    inc r5 ; outside the guard".to_string());
                                    b.push(format!(".ifdef {}", g));
                                    b.push("    swap r5".to_string());
                                    b.push(".endif".to_string());
                                }
                                body = b;
                            }
                            _ => {}
                        }
                        self.files.push((self.caller_dirs[k].clone(), format!("twice{}.inc", t), None, body));
                        self.prepend.push(vec![]);
                        self.has_children.push(false);
                        self.leaf_only.push(true);
                        self.twice = Some(t);
                        t
                    }
                };
                self.twice_uses += 1;
                self.edges.push((file, t, "c2".into()));
                out.push(Node::Lines(vec![format!(".include \"{}\"", self.files[t].1)]));
            }
            let can_cut = depth < 4 && self.files.len() < self.max_files && !self.leaf_only[file];
            if can_cut && self.r.chance(1, 30) {
                // an include of an empty (or blank, or comment-only) file pastes nothing
                let child = self.new_file(file);
                let (written, pre) = self.place(child, file);
                self.files[child].3 = match self.r.below(3) {
                    0 => {
                        if self.r.chance(1, 2) {
                            self.devices.push(child);
                        }
                        vec![]
                    }
                    1 => vec![String::new(), "   ".to_string()],
                    _ => vec!["; nothing here".to_string()],
                };
                let mut l = pre;
                l.push(format!(".include \"{}\"", written));
                out.push(Node::Lines(l));
            }
            if can_cut && self.r.chance(1, 4) {
                let len = 1 + self.r.usize((nodes.len() - i).min(5));
                let child_nodes: Vec<Node> = nodes[i..i + len].to_vec();
                let child = self.new_file(file);
                // the child's directory must be known before its own children are placed
                let (mut written, pre) = self.place(child, file);
                // two files cannot share one path
                let key = (self.files[child].0.clone(), self.files[child].1.clone());
                if self.files.iter().enumerate().any(|(i, f)| i != child && f.0 == key.0 && f.1 == key.1) {
                    let fresh = format!("u{}_{}", child, key.1);
                    if let Some(pos) = written.rfind(&key.1) {
                        written.replace_range(pos..pos + key.1.len(), &fresh);
                    }
                    self.files[child].1 = fresh;
                }
                let child_nodes = self.process(child_nodes, child, depth + 1);
                let mut lines = vec![];
                proggen::flatten_nodes(&child_nodes, &mut lines);
                if self.r.chance(1, 4) {
                    // .exit ends this file only; what follows would break or change the build
                    lines.push(if self.r.chance(1, 2) { ".exit".to_string() } else { "    .exit".to_string() });
                    if let Some(l) = self.labels.first() {
                        lines.push(format!("{}:", l));
                    }
                    lines.push("    ldi r31, 0xEE ; never assembled".to_string());
                    if self.r.chance(1, 2) {
                        lines.push("%% not even parsed %%".to_string());
                    }
                }
                self.files[child].3 = lines;
                let mut l = pre;
                let ind = if self.r.chance(1, 4) { "  " } else { "" };
                l.push(format!("{}.include \"{}\"", ind, written));
                out.push(Node::Lines(l));
                i += len;
                continue;
            }
            match nodes[i].clone() {
                Node::Cond { head, then, els } if self.r.chance(1, 2) => {
                    let then = self.process(then, file, depth);
                    let els = els.map(|(e, b)| (e, self.process(b, file, depth)));
                    out.push(Node::Cond { head, then, els });
                }
                n => out.push(n),
            }
            i += 1;
        }
        out
    }
}

fn collect_labels(nodes: &[Node], out: &mut Vec<String>) {
    let mut lines = vec![];
    proggen::flatten_nodes(nodes, &mut lines);
    for l in lines {
        let t = l.trim();
        if let Some(p) = t.find(':') {
            let name = &t[..p];
            if !name.is_empty() && name.chars().all(|c| c.is_ascii_alphanumeric() || c == '_') && !name.chars().next().unwrap().is_ascii_digit() {
                out.push(name.to_string());
            }
        }
    }
}

/// Where a generated tree lives: alone below the scratch root (engine inctree), or as one of
/// many trees that share one process cwd (engine multibuild).
#[derive(Clone, Debug, Default)]
pub struct Layout {
    /// Some(d): a chain main -> c1 -> c2 ... of this depth instead of a bushy tree
    pub chain_depth: Option<usize>,
    /// "" or "trees/7/" (with the trailing slash)
    pub base: String,
    pub cwd: Option<String>,
    pub w_prefix: String,
    pub msg_tag: Option<String>,
}

pub fn scenario_shape(_tier: &str, base_seed: u64, g: u64) -> Scenario {
    scenario_with(mix(base_seed, &[0xC11, g]), g, &Layout::default())
}

pub fn scenario_with(seed: u64, g: u64, layout: &Layout) -> Scenario {
    let mut r = Rng::new(seed);
    let pool = proggen::Pool::new(&mut r);
    let mut o = proggen::GenOpts::default();
    o.min_blocks = 5;
    o.max_blocks = 22;
    o.msg_tag = layout.msg_tag.clone().unwrap_or_else(|| format!("t{}m", g % 1000));
    if r.chance(3, 10) {
        // (no .include inside a macro body here: the statement leaves that undefined, and with a
        // file of that name in reach the expansion can include itself without end)
        let kinds: Vec<&str> = proggen::FAIL_KINDS.iter().copied().filter(|k| *k != "include-in-macro").collect();
        o.fail = Some(kinds[r.usize(kinds.len())].to_string());
    }
    let prog = proggen::gen(&mut r, &pool, &o);
    let mut labels = vec![];
    collect_labels(&prog.nodes, &mut labels);
    // one tree in eight lives in directories whose names are not valid UTF-8 (Latin-1 bytes);
    // undone at the end if some file would have to spell such a name
    let raw = layout.cwd.is_none() && r.chance(1, 8);
    let rc = |b: u8| -> String { if raw { raw_byte_char(b).to_string() } else { "a".to_string() } };
    let main_dir = format!("{}{}", layout.base, [format!("proj{}", if raw { rc(0xE4) } else { String::new() }), format!("proj/src{}", if raw { rc(0xFC) } else { String::new() }), "top dir".to_string()][r.usize(3)]);
    let main_name = ["main.asm", "Main Prog.asm", "m"][r.usize(3)].to_string();
    // mostly a directory that is no directory of the tree; sometimes deep below the root (so
    // relative paths carry several leading ".."), sometimes the main file's own directory
    let drawn = match r.below(20) {
        0..=11 => "cwd_here".to_string(),
        12..=16 => "w/x/cwd_here".to_string(),
        _ => main_dir.clone(),
    };
    let cwd = layout.cwd.clone().unwrap_or(drawn);
    let ncaller = r.range(1, 2) as usize;
    let caller_dirs: Vec<String> = (0..ncaller).map(|k| if k == 0 { format!("{}lib1{}", layout.base, if raw { rc(0xE9) } else { String::new() }) } else { format!("{}lib two/inc", layout.base) }).collect();
    let max_files = [1usize, 2, 3, 4, 5, 6, 8, 8][r.usize(8)];
    let mut tg = TreeGen {
        r: &mut r,
        files: vec![(main_dir.clone(), main_name.clone(), None, vec![])],
        prepend: vec![vec![]],
        has_children: vec![false],
        leaf_only: vec![false],
        edges: vec![],
        caller_dirs: caller_dirs.clone(),
        used_caller: BTreeSet::new(),
        cwd: cwd.clone(),
        base: layout.base.clone(),
        w_prefix: layout.w_prefix.clone(),
        max_files,
        ip_n: 0,
        twice: None,
        twice_uses: 0,
        labels,
        devices: vec![],
    };
    // now and then (or on request) a deep chain: every file holds a piece of the program and
    // includes the next one, so d files are open at the deepest point
    let chain = layout.chain_depth.or_else(|| if tg.r.chance(1, 30) { Some(if tg.r.chance(1, 6) { tg.r.range(49, 64) } else { tg.r.range(9, 24) } as usize) } else { None });
    let nodes = match chain {
        None => tg.process(prog.nodes.clone(), 0, 0),
        Some(d) => {
            let mut pieces: Vec<Vec<Node>> = vec![vec![]; d + 1];
            let n = prog.nodes.len().max(1);
            for (i, node) in prog.nodes.iter().enumerate() {
                pieces[i * (d + 1) / n].push(node.clone());
            }
            // build from the deepest file upwards
            let mut parent_of: Vec<usize> = vec![0];
            for k in 1..=d {
                let idx = tg.files.len();
                let dir = if k % 3 == 0 { tg.caller_dirs[0].clone() } else { tg.files[0].0.clone() };
                if k % 3 == 0 {
                    tg.used_caller.insert(0);
                }
                tg.files.push((dir, format!("c{}.inc", k), Some(parent_of[k - 1]), vec![]));
                tg.prepend.push(vec![]);
                tg.has_children.push(k < d);
                tg.leaf_only.push(true);
                parent_of.push(idx);
            }
            for k in (1..=d).rev() {
                let mut l = vec![];
                proggen::flatten_nodes(&pieces[k], &mut l);
                if l.is_empty() {
                    l.push("    nop".to_string());
                }
                if k < d {
                    l.push(format!(".include \"c{}.inc\"", k + 1));
                }
                let idx = parent_of[k];
                tg.files[idx].3 = l;
                tg.edges.push((parent_of[k - 1], idx, if k % 3 == 0 { "c".into() } else { "p".into() }));
            }
            let mut top = pieces[0].clone();
            top.push(Node::Lines(vec![".include \"c1.inc\"".to_string()]));
            top
        }
    };
    let mut lines = vec![];
    proggen::flatten_nodes(&nodes, &mut lines);
    if tg.r.chance(1, 6) {
        lines.push(".exit".to_string());
        lines.push("    ldi r31, 0xEE ; never assembled".to_string());
        lines.push("%% not even parsed %%".to_string());
    }
    tg.files[0].3 = lines;
    let mut files = BTreeMap::new();
    for (i, (dir, name, _, lines)) in tg.files.iter().enumerate() {
        let mut all = tg.prepend[i].clone();
        all.extend(lines.iter().cloned());
        // text formats that must not matter: CRLF line ends, no newline at the end of the file
        let eol = if tg.r.chance(1, 7) { "\r\n" } else { "\n" };
        // now and then a file is padded with comment lines so that a multi-byte character
        // straddles a power-of-two offset (block-wise readers, buffer boundaries)
        if tg.r.chance(1, 40) {
            let b = [512usize, 1024, 4096, 8192, 8192, 16384, 32768, 65536][tg.r.usize(8)];
            let ch = ["\u{b5}", "\u{20ac}", "\u{1d11e}"][tg.r.usize(3)];
            let mut pad: Vec<String> = vec![];
            let mut off = 0usize;
            let line = format!("; {}", "padding ".repeat(7));
            while off + line.len() + eol.len() + 80 <= b {
                off += line.len() + eol.len();
                pad.push(line.clone());
            }
            // the character's first byte lands on offset b-1
            let fill = b - 1 - off - 1;
            pad.push(format!(";{}{} straddles offset {}", "p".repeat(fill), ch, b));
            pad.extend(all.iter().cloned());
            all = pad;
        }
        // now and then a comment holds a control character (Ctrl-Z, form feed): bytes like any
        // other inside a comment, in the file as in the pasted text
        if tg.r.chance(1, 12) && !all.is_empty() {
            let at = tg.r.usize(all.len());
            let ch = ['\u{1a}', '\u{0c}', '\u{1a}'][tg.r.usize(3)];
            all.insert(at, format!("; legacy tools left a control character here: {} (and text after it)", ch));
        }
        let mut text = all.join(eol);
        if !tg.r.chance(1, 7) || all.is_empty() {
            text.push_str(eol);
        }
        files.insert(format!("{}/{}", dir, name), text);
    }
    // decoys: a plain file where an include name expects a directory, in a directory that is
    // searched before or after the one that holds the real file ("s1" for `.include "s1/f.inc"`)
    let wanted_subs: Vec<String> = files
        .values()
        .flat_map(|t| t.lines().filter_map(parse_include).collect::<Vec<_>>())
        .filter_map(|n| {
            let n = n.trim_start_matches("./").to_string();
            if n.starts_with("$R") || !n.contains('/') {
                None
            } else {
                n.split('/').next().map(|s| s.to_string())
            }
        })
        .collect();
    for sub in wanted_subs {
        if !tg.r.chance(1, 3) {
            continue;
        }
        let mut dirs: Vec<String> = caller_dirs.clone();
        if layout.cwd.is_none() {
            dirs.push(cwd.clone()); // a cwd shared with other trees gets no decoys
        }
        dirs.push(main_dir.clone());
        let d = dirs[tg.r.usize(dirs.len())].clone();
        let decoy = format!("{}/{}", d, sub);
        let prefix = format!("{}/", decoy);
        if !files.contains_key(&decoy) && !files.keys().any(|k| k.starts_with(&prefix)) {
            files.insert(decoy, "; a plain file, not a directory\n".to_string());
        }
    }
    let edges: Vec<(String, String, String)> = tg.edges.iter().map(|(p, c, k)| (format!("{}/{}", tg.files[*p].0, tg.files[*p].1), format!("{}/{}", tg.files[*c].0, tg.files[*c].1), k.clone())).collect();
    let main_file = format!("{}/{}", main_dir, main_name);
    let abs_main = tg.r.chance(1, 3);
    let main = if abs_main { format!("$R/{}", main_file) } else { rel_from(&cwd, &main_file) };
    // caller paths: those used, sometimes an unused extra, absolute or relative to the cwd
    let mut paths: Vec<String> = vec![];
    for (k, d) in caller_dirs.iter().enumerate() {
        if tg.used_caller.contains(&k) || tg.r.chance(1, 2) {
            paths.push(if tg.r.chance(1, 2) { format!("$R/{}", d) } else { rel_from(&cwd, d) });
        }
    }
    if tg.r.chance(1, 5) {
        paths.push("$R/no such dir".to_string());
    }
    // now and then an included file that includes something itself is a symbolic link to a file
    // in a directory nobody searches (only for a tree that lives alone on its disk)
    let mut symlinks: BTreeMap<String, String> = BTreeMap::new();
    if layout.cwd.is_none() && tg.r.chance(1, 6) {
        let cands: Vec<String> = files.iter().filter(|(k, t)| **k != main_file && t.lines().any(|l| parse_include(l).is_some())).map(|(k, _)| k.clone()).collect();
        let all: Vec<String> = files.keys().filter(|k| **k != main_file).cloned().collect();
        let pool = if !cands.is_empty() { cands } else { all };
        if !pool.is_empty() {
            let k = pool[tg.r.usize(pool.len())].clone();
            let n = symlinks.len();
            symlinks.insert(k.clone(), format!("linked/store{}/{}", n, basename(&k)));
        }
    }
    // device nodes only on a disk the tree has for itself
    let devices: Vec<String> = if layout.cwd.is_none() { tg.devices.iter().map(|i| format!("{}/{}", tg.files[*i].0, tg.files[*i].1)).filter(|p| files.get(p).map(|t| t.trim().is_empty()).unwrap_or(false) && !symlinks.contains_key(p)).collect() } else { vec![] };
    // now and then one search directory is spelled through a directory alias: `<link>/../<dir>`
    let mut dirlinks: BTreeMap<String, String> = BTreeMap::new();
    if layout.cwd.is_none() && !raw && tg.r.chance(1, 5) {
        // candidates: (Some(index of caller path) | None + (file, line index), directory it names, was absolute, base dir of a relative spelling)
        let mut cands: Vec<(Option<usize>, Option<(String, usize)>, String, bool, String)> = vec![];
        for (i, p) in paths.iter().enumerate() {
            if p.contains("no such dir") {
                continue;
            }
            if let Some(d) = incmodel::join_norm(&cwd, p) {
                cands.push((Some(i), None, d, p.starts_with("$R"), cwd.clone()));
            }
        }
        for (k, t) in &files {
            if symlinks.contains_key(k) {
                continue;
            }
            for (li, l) in t.lines().enumerate() {
                if let Some(arg) = incmodel::parse_includepath(l) {
                    if let Some(d) = incmodel::join_norm(incmodel::dirname(k), &arg) {
                        cands.push((None, Some((k.clone(), li)), d, arg.starts_with("$R"), incmodel::dirname(k).to_string()));
                    }
                }
            }
        }
        cands.retain(|c| c.2.contains('/') && !c.2.contains('"'));
        if !cands.is_empty() {
            let c = cands[tg.r.usize(cands.len())].clone();
            let parent = incmodel::dirname(&c.2).to_string();
            let target = format!("{}/zzq0", parent);
            let tpre = format!("{}/", target);
            if !files.contains_key(&target) && !files.keys().any(|k| k.starts_with(&tpre)) {
                let link = "links/l0/deep/L0".to_string();
                let spelled = if c.3 { format!("$R/{}/../{}", link, basename(&c.2)) } else { format!("{}/../{}", rel_from(&c.4, &link), basename(&c.2)) };
                match (&c.0, &c.1) {
                    (Some(i), _) => paths[*i] = spelled,
                    (None, Some((k, li))) => {
                        let t = files.get(k).cloned().unwrap_or_default();
                        let eol = if t.contains("\r\n") { "\r\n" } else { "\n" };
                        let ends = t.ends_with('\n');
                        let mut ls: Vec<String> = t.lines().map(|l| l.to_string()).collect();
                        if let Some(arg) = incmodel::parse_includepath(&ls[*li]) {
                            ls[*li] = ls[*li].replacen(&format!("\"{}\"", arg), &format!("\"{}\"", spelled), 1);
                        }
                        let mut nt = ls.join(eol);
                        if ends {
                            nt.push_str(eol);
                        }
                        files.insert(k.clone(), nt);
                    }
                    _ => {}
                }
                dirlinks.insert(link, target);
            }
        }
    }
    let cfgs = ["free", "twice", "missing", "enum", "enum", "enum", "pair", "cap", "nonutf8", "enum", "twice", "appear"];
    let config = cfgs[tg.r.usize(cfgs.len())].to_string();
    let sc = Scenario {
        engine: "inctree".into(),
        files,
        cwd,
        main,
        main_file,
        paths,
        edges,
        rules: vec![],
        read_cap: 0,
        missing: None,
        nonutf8: None,
        hash_seed: seed,
        then_write: BTreeMap::new(),
        then_remove: vec![],
        symlinks,
        devices,
        dirlinks,
        appear: None,
        intent: prog.intent,
        config,
    };
    // a source text cannot spell a name that is not UTF-8: such a tree gets plain names after all
    if raw && sc.files.values().any(|t| has_raw(t)) {
        return plain_names(&sc);
    }
    sc
}

/// The same scenario with every raw-byte character of a name replaced by a plain letter.
pub fn plain_names(sc: &Scenario) -> Scenario {
    let j = serde_json::to_string(sc).expect("scenario to json");
    serde_json::from_str(&deraw(&j)).expect("scenario from json")
}

// ---------------------------------------------------------------------------------------------
// execution
// ---------------------------------------------------------------------------------------------

pub struct Disk {
    pub scratch: Scratch,
    pub root: PathBuf,
}

impl Disk {
    pub fn new(tag: &str) -> Result<Disk, String> {
        let scratch = Scratch::new(tag).map_err(|e| e.to_string())?;
        let root = scratch.path("root");
        std::fs::create_dir_all(&root).map_err(|e| e.to_string())?;
        Ok(Disk { scratch, root })
    }
    pub fn root_str(&self) -> String {
        self.root.to_string_lossy().into_owned()
    }
    pub fn materialise(&self, sc: &Scenario) -> Result<(), String> {
        let _ = std::env::set_current_dir("/");
        let _ = std::fs::remove_dir_all(&self.root);
        std::fs::create_dir_all(self.root.join(pb(&sc.cwd))).map_err(|e| e.to_string())?;
        let rs = self.root_str();
        for (p, t) in &sc.files {
            if sc.missing.as_deref() == Some(p.as_str()) {
                continue;
            }
            let fp = self.root.join(pb(p));
            if let Some(d) = fp.parent() {
                std::fs::create_dir_all(d).map_err(|e| e.to_string())?;
            }
            let mut bytes = t.replace("$R", &rs).into_bytes();
            if let Some((f, off)) = &sc.nonutf8 {
                if f == p && !bytes.is_empty() {
                    let o = (*off).min(bytes.len() - 1);
                    bytes[o] = 0xFF;
                }
            }
            match sc.symlinks.get(p) {
                Some(target) => {
                    let tp = self.root.join(pb(target));
                    if let Some(d) = tp.parent() {
                        std::fs::create_dir_all(d).map_err(|e| e.to_string())?;
                    }
                    std::fs::write(&tp, bytes).map_err(|e| format!("write {}: {}", target, e))?;
                    std::os::unix::fs::symlink(&tp, &fp).map_err(|e| format!("symlink {}: {}", p, e))?;
                }
                None if bytes.iter().all(|b| b.is_ascii_whitespace()) && sc.devices.contains(p) && make_null_device(&fp) => {}
                None => std::fs::write(&fp, bytes).map_err(|e| format!("write {}: {}", p, e))?,
            }
        }
        // directory aliases and the (empty) directories they point to
        for (l, t) in &sc.dirlinks {
            let tp = self.root.join(pb(t));
            std::fs::create_dir_all(&tp).map_err(|e| e.to_string())?;
            let lp = self.root.join(pb(l));
            if let Some(d) = lp.parent() {
                std::fs::create_dir_all(d).map_err(|e| e.to_string())?;
            }
            std::os::unix::fs::symlink(&tp, &lp).map_err(|e| format!("symlink {}: {}", l, e))?;
        }
        // caller directories exist even when empty
        for d in &sc.paths {
            if !d.contains("no such dir") {
                let p = d.replace("$R", &rs);
                let p = if p.starts_with('/') { pb(&p) } else { self.root.join(pb(&sc.cwd)).join(pb(&p)) };
                let _ = std::fs::create_dir_all(p);
            }
        }
        std::env::set_current_dir(self.root.join(pb(&sc.cwd))).map_err(|e| format!("chdir: {}", e))
    }
}

/// A character device 1:3 (what /dev/null is) at `p`; false where the system does not allow it
/// (not root, a nodev mount) - the file is then an ordinary empty file.
fn make_null_device(p: &Path) -> bool {
    use std::os::unix::ffi::OsStrExt;
    let c = match std::ffi::CString::new(p.as_os_str().as_bytes()) {
        Ok(c) => c,
        Err(_) => return false,
    };
    let _ = std::fs::remove_file(p);
    if unsafe { libc::mknod(c.as_ptr(), libc::S_IFCHR | 0o666, libc::makedev(1, 3)) } != 0 {
        return false;
    }
    // a nodev mount lets the node be created but not opened
    match std::fs::File::open(p) {
        Ok(_) => true,
        Err(_) => {
            let _ = std::fs::remove_file(p);
            false
        }
    }
}

pub struct TreeRun {
    pub outcome: Outcome,
    pub state: SimState,
}

pub fn run_tree(disk: &Disk, sc: &Scenario, budget: u64) -> Result<TreeRun, String> {
    let rs = disk.root_str();
    let main = pb(&sc.main.replace("$R", &rs));
    let paths: std::collections::BTreeSet<PathBuf> = sc.paths.iter().map(|p| pb(&p.replace("$R", &rs))).collect();
    let mut st = SimState::new(&rs);
    st.rules = rules_to_sim(&sc.rules)?;
    st.read_cap = sc.read_cap;
    st.hash_seed = sc.hash_seed;
    st.budget = budget;
    let run = run_simulated(st, move || avra_lib::builder::build_file(main, paths).map_err(|e| e.to_string()));
    Ok(TreeRun { outcome: Outcome::from(run.result), state: run.state })
}

// ---- a change of the world in the middle of a build ---------------------------------------------
static LINE_EVENTS: std::sync::atomic::AtomicU64 = std::sync::atomic::AtomicU64::new(0);
static CHANGE_AT: std::sync::atomic::AtomicU64 = std::sync::atomic::AtomicU64::new(0);
static CHANGE_TRACE_POS: std::sync::atomic::AtomicUsize = std::sync::atomic::AtomicUsize::new(usize::MAX);
static CHANGE_WRITES: std::sync::Mutex<Vec<(PathBuf, Vec<u8>)>> = std::sync::Mutex::new(Vec::new());

/// Sink for the scheduling points of /repo (runs outside the simulation): site 7 is "the parser
/// is about to take its next line".
fn line_sink(site: u32) {
    use std::sync::atomic::Ordering::SeqCst;
    if site != 7 {
        return;
    }
    let n = LINE_EVENTS.fetch_add(1, SeqCst) + 1;
    if n == CHANGE_AT.load(SeqCst) {
        for (p, t) in CHANGE_WRITES.lock().unwrap_or_else(|e| e.into_inner()).iter() {
            if let Some(d) = p.parent() {
                let _ = std::fs::create_dir_all(d);
            }
            let _ = std::fs::write(p, t);
        }
        let pos = crate::simlibc::with_state(|st| st.trace.len()).unwrap_or(0);
        CHANGE_TRACE_POS.store(pos, SeqCst);
    }
}

pub struct AppearRun {
    pub run: TreeRun,
    /// line events seen during the build
    pub line_events: u64,
    /// length of the trace when the files appeared (None: the build ended before)
    pub change_pos: Option<usize>,
}

/// Build with the files of `sc.appear` absent until line event k (k = 0: never, they stay absent).
pub fn run_tree_appear(disk: &Disk, sc: &Scenario, files: &[String], k: u64) -> Result<AppearRun, String> {
    use std::sync::atomic::Ordering::SeqCst;
    let mut start = sc.clone();
    start.appear = None;
    let rs = disk.root_str();
    let mut writes = vec![];
    for f in files {
        if let Some(t) = start.files.remove(f) {
            writes.push((disk.root.join(pb(f)), t.replace("$R", &rs).into_bytes()));
        }
    }
    disk.materialise(&start)?;
    *CHANGE_WRITES.lock().unwrap_or_else(|e| e.into_inner()) = writes;
    LINE_EVENTS.store(0, SeqCst);
    CHANGE_AT.store(k, SeqCst);
    CHANGE_TRACE_POS.store(usize::MAX, SeqCst);
    crate::sched::HOOK_SINK.store(line_sink as fn(u32) as usize, SeqCst);
    let run = run_tree(disk, &start, u64::MAX);
    crate::sched::HOOK_SINK.store(0, SeqCst);
    let pos = CHANGE_TRACE_POS.load(SeqCst);
    Ok(AppearRun { run: run?, line_events: LINE_EVENTS.load(SeqCst), change_pos: if pos == usize::MAX { None } else { Some(pos) } })
}

/// The oracle for an appearing file: see `Scenario::appear`.
pub fn judge_appear(sc: &Scenario, files: &[String], a: &AppearRun, full: &Outcome, seed: u64) -> Option<Violation> {
    let pos = a.change_pos?;
    let names: BTreeSet<&str> = files.iter().map(|f| basename(f)).collect();
    let looked_before = a.run.state.trace[..pos.min(a.run.state.trace.len())].iter().any(|e| matches!(e.call, Call::Stat | Call::Open) && names.contains(basename(&e.path)));
    if looked_before || &a.run.outcome == full {
        return None;
    }
    Some(mk_violation(
        sc,
        "file-that-appeared-before-its-include-is-not-found",
        "files that are put into an .includepath directory before anything looked for them are found like files that were there from the start (the build ends as it ends with them in place)",
        json!({"appearing": files, "trace_length_when_they_appeared": pos, "with_the_files_appearing": a.run.outcome.short(), "with_the_files_there_from_the_start": full.short(), "trace_tail": trace_tail(&a.run.state.trace, 16)}),
        seed,
    ))
}

/// Two builds of the same arguments by one caller thread, the tree edited in between.
pub fn run_tree_twice(disk: &Disk, sc: &Scenario) -> Result<(Outcome, TreeRun), String> {
    let rs = disk.root_str();
    let main = pb(&sc.main.replace("$R", &rs));
    let paths: std::collections::BTreeSet<PathBuf> = sc.paths.iter().map(|p| pb(&p.replace("$R", &rs))).collect();
    let mut st = SimState::new(&rs);
    st.hash_seed = sc.hash_seed;
    let writes: Vec<(PathBuf, String)> = sc.then_write.iter().map(|(k, v)| (disk.root.join(pb(k)), v.replace("$R", &rs))).collect();
    let removes: Vec<PathBuf> = sc.then_remove.iter().map(|k| disk.root.join(pb(k))).collect();
    let run = run_simulated(st, move || {
        let first = std::panic::catch_unwind(std::panic::AssertUnwindSafe(|| avra_lib::builder::build_file(main.clone(), paths.clone()).map_err(|e| e.to_string())));
        crate::simlibc::bypass(|| {
            for p in &removes {
                let _ = std::fs::remove_file(p);
            }
            for (p, t) in &writes {
                if let Some(d) = p.parent() {
                    let _ = std::fs::create_dir_all(d);
                }
                {
                    use std::os::unix::fs::FileTypeExt;
                    if std::fs::symlink_metadata(p).map(|m| m.file_type().is_char_device()).unwrap_or(false) {
                        let _ = std::fs::remove_file(p); // the edit replaces the device node by a file
                    }
                }
                let _ = std::fs::write(p, t);
            }
        });
        let second = avra_lib::builder::build_file(main, paths).map_err(|e| e.to_string());
        (first, second)
    });
    match run.result {
        Ok((first, second)) => {
            let f = Outcome::from(match first {
                Ok(r) => Ok(r),
                Err(p) => Err(panic_text(p)),
            });
            Ok((f, TreeRun { outcome: Outcome::from(Ok(second)), state: run.state }))
        }
        Err(p) => Ok((Outcome::Panic(p.clone()), TreeRun { outcome: Outcome::Panic(p), state: run.state })),
    }
}

pub fn edited_files(sc: &Scenario) -> BTreeMap<String, String> {
    let mut f = present_files(sc);
    for k in &sc.then_remove {
        f.remove(k);
    }
    for (k, v) in &sc.then_write {
        f.insert(k.clone(), v.clone());
    }
    f
}

/// Judge the second build of a "twice" scenario against the paste of the edited tree.
fn run_twice(cx: &mut Ctx, sc: &Scenario, seed: u64) -> Option<u64> {
    let files = edited_files(sc);
    let world = World { files: &files, cwd: &sc.cwd, caller: &sc.paths, links: &sc.dirlinks };
    let flat = match incmodel::paste(&world, &sc.main_file) {
        Ok(f) => f,
        Err(e) => {
            cx.stats.harness_errors.push(e);
            return None;
        }
    };
    let mut clean = sc.clone();
    clean.rules.clear();
    clean.read_cap = 0;
    clean.nonutf8 = None;
    if let Err(e) = cx.disk.materialise(&clean) {
        cx.stats.harness_errors.push(e);
        return None;
    }
    let rs = cx.disk.root_str();
    let flat_out = run_flat(cx.disk, &flat.text.replace("$R", &rs), sc.hash_seed);
    let (_first, second) = match run_tree_twice(cx.disk, &clean) {
        Ok(x) => x,
        Err(e) => {
            cx.stats.harness_errors.push(e);
            return None;
        }
    };
    cx.stats.runs += 1;
    cx.stats.fault_free_runs += 1;
    cx.stats.steps += second.state.steps;
    cx.stats.count("second_builds_after_an_edit", 1);
    if let Some(mut v) = judge_world(&clean, &second.outcome, &flat_out, &flat, &rs, &second.state.trace, seed) {
        v.class = format!("second-build-after-edit:{}", v.class);
        v.signature = format!("{} then=edit", v.signature.replace("class=", "class=second-build-after-edit:"));
        cx.found += 1;
        (cx.emit)(v);
    }
    Some(fnv(second.outcome.short().replace(&rs, "$R").as_bytes()))
}

pub fn run_flat(disk: &Disk, text: &str, hash_seed: u64) -> Outcome {
    let mut st = SimState::new(&disk.root_str());
    st.hash_seed = hash_seed;
    let t = text.to_string();
    let run = run_simulated(st, move || avra_lib::builder::build_str(&t).map_err(|e| e.to_string()));
    Outcome::from(run.result)
}

// ---------------------------------------------------------------------------------------------
// oracle
// ---------------------------------------------------------------------------------------------

fn split_message(m: &str) -> Option<(String, usize)> {
    // "<kind>: <text> in line: <n>"
    let idx = m.rfind(" in line: ")?;
    let n: usize = m[idx + 10..].trim().parse().ok()?;
    Some((m[..idx].to_string(), n))
}

/// Compare the tree build with the flat build. None = equivalent.
pub fn compare(tree: &Outcome, flat: &Outcome, map: &[(String, usize)]) -> Option<String> {
    match (tree, flat) {
        (Outcome::Built { code: c1, eeprom: e1, sizes: s1, messages: m1 }, Outcome::Built { code: c2, eeprom: e2, sizes: s2, messages: m2 }) => {
            if c1 != c2 {
                let at = c1.iter().zip(c2.iter()).position(|(a, b)| a != b).unwrap_or(c1.len().min(c2.len()));
                return Some(format!("flash images differ: tree {} bytes, flat {} bytes, first difference at byte {}", c1.len(), c2.len(), at));
            }
            if e1 != e2 {
                return Some(format!("eeprom images differ: tree {} bytes, flat {} bytes", e1.len(), e2.len()));
            }
            if s1 != s2 {
                return Some(format!("sizes differ: tree (flash, eeprom, ram, ram_filling) = {:?}, flat = {:?}", s1, s2));
            }
            if m1.len() != m2.len() {
                return Some(format!("message count differs: tree {:?}, flat {:?}", m1, m2));
            }
            for (a, b) in m1.iter().zip(m2.iter()) {
                match (split_message(a), split_message(b)) {
                    (Some((ta, la)), Some((tb, lb))) => {
                        if ta != tb {
                            return Some(format!("messages differ or are out of order: tree {:?}, flat {:?}", a, b));
                        }
                        // the flat line number, mapped to the numbering of the file it came from
                        match map.get(lb.wrapping_sub(1)) {
                            Some((_, fl)) if *fl == la => {}
                            Some((f, fl)) => return Some(format!("message line number: tree says line {}, the pasted line {} is line {} of {}: {:?}", la, lb, fl, f, a)),
                            None => return Some(format!("message line number {} is outside the pasted text: {:?}", lb, b)),
                        }
                    }
                    // another message format (e.g. with file names): compare the texts loosely
                    _ => {
                        let key = |s: &str| -> String { s.split('"').next().unwrap_or("").to_string() };
                        let _ = key;
                        // unique message texts: the generated tag must appear in both
                        let tag_a: Vec<&str> = a.split(|c: char| !c.is_ascii_alphanumeric()).filter(|w| w.len() >= 3 && w.chars().any(|c| c.is_ascii_digit()) && w.contains('m')).collect();
                        if !tag_a.iter().any(|w| b.contains(w)) {
                            return Some(format!("messages differ or are out of order: tree {:?}, flat {:?}", a, b));
                        }
                    }
                }
            }
            None
        }
        (Outcome::Built { .. }, f) => Some(format!("tree builds, pasted text does not: {}", f.short())),
        (t, Outcome::Built { .. }) => Some(format!("pasted text builds, tree does not: {}", t.short())),
        _ => None, // both fail
    }
}

fn mk_violation(sc: &Scenario, class: &str, expected: &str, observed: Value, seed: u64) -> Violation {
    let kinds: BTreeSet<String> = sc.edges.iter().map(|e| e.2.clone()).collect();
    Violation {
        property: "C11".into(),
        engine: "inctree".into(),
        class: class.into(),
        signature: format!("class={} faults={} kinds={}", class, if sc.rules.is_empty() && sc.read_cap == 0 && sc.missing.is_none() && sc.nonutf8.is_none() { "none".to_string() } else { format!("{}{}{}{}", if sc.missing.is_some() { "missing " } else { "" }, if sc.nonutf8.is_some() { "nonutf8 " } else { "" }, if sc.read_cap > 0 { "cap " } else { "" }, sc.rules.iter().map(|r| r.kind.clone()).collect::<BTreeSet<_>>().into_iter().collect::<Vec<_>>().join("+")) }, kinds.into_iter().collect::<Vec<_>>().join("")),
        seed,
        expected: expected.into(),
        observed,
        scenario: serde_json::to_value(sc).unwrap(),
    }
}

/// Was `file` (scratch-relative) opened successfully in this trace?
fn opened_in(trace: &[Event], file: &str) -> bool {
    let base = basename(file);
    trace.iter().any(|e| e.call == Call::Open && e.ret >= 0 && basename(&e.path) == base)
}

pub fn present_files(sc: &Scenario) -> BTreeMap<String, String> {
    let mut f = sc.files.clone();
    if let Some(m) = &sc.missing {
        f.remove(m);
    }
    f
}

/// The fault-free oracle for one world (files, cwd, caller directories): the tree build against
/// the pasted text. Handles the two cases in which the model does not predict "found":
/// an include that exists only outside every documented place (the tool may find it anyway or
/// must fail naming it) and an include for which no file exists (both sides fail exactly when
/// the directive is reached, and the tree's error names the include as written).
pub fn judge_world(sc: &Scenario, tree: &Outcome, flat_out: &Outcome, flat: &Flat, root: &str, trace: &[Event], seed: u64) -> Option<Violation> {
    if matches!(flat_out, Outcome::Panic(_)) {
        return None; // the pasted text panics in isolation: a C16 matter, excluded and counted
    }
    if !flat.ambiguous.is_empty() {
        return None; // several files qualify for one include: which one wins is not stated
    }
    let tail = trace_tail(trace, 16);
    // the last clause of the property: a file found nowhere fails the build with an error naming it
    if let Outcome::Err(fe) = flat_out {
        if let Some(pos) = fe.find(incmodel::MARKER) {
            let rest = &fe[pos + incmodel::MARKER.len()..];
            if let Some(name) = flat.unresolvable.iter().find(|n| rest.starts_with(&n.replace('"', "'"))) {
                let shown = lossy(&name.replace("$R", root));
                return match tree {
                    Outcome::Err(e) if e.contains(&shown) => None,
                    // an earlier include outside every documented place may legitimately be
                    // the one that is reported
                    Outcome::Err(e) if flat.undocumented.iter().any(|n| e.contains(&n.replace("$R", root))) => None,
                    Outcome::Err(e) => Some(mk_violation(sc, "not-found-error-does-not-name-the-file", "a file found nowhere fails the build with an error naming it", json!({"include_as_written": shown, "error": e, "trace_tail": tail}), seed)),
                    Outcome::Panic(p) => Some(mk_violation(sc, "not-found-include-panics", "a file found nowhere fails the build with an error naming it (not a panic)", json!({"include_as_written": shown, "panic": p, "trace_tail": tail}), seed)),
                    o => Some(mk_violation(sc, "not-found-include-ignored", "a file found nowhere fails the build with an error naming it", json!({"include_as_written": shown, "outcome": o.short(), "trace_tail": tail}), seed)),
                };
            }
        }
    }
    match compare(tree, flat_out, &flat.map) {
        None => None,
        Some(why) => {
            // an include outside every documented place: failing with an error that names it is fine
            if let Outcome::Err(e) = tree {
                if flat.undocumented.iter().any(|n| e.contains(&n.replace("$R", root))) {
                    return None;
                }
            }
            Some(mk_violation(
                sc,
                "tree-differs-from-pasted-text",
                "build_file(tree) has exactly the effect of build_str(pasted text): same images, sizes, messages (line numbers mapped), or both fail",
                json!({"difference": why, "tree": tree.short(), "pasted": flat_out.short(), "pasted_text": flat.text, "includes_outside_documented_places": flat.undocumented, "trace_tail": tail}),
                seed,
            ))
        }
    }
}

/// Judge a run with injected faults against the fault-free tree outcome of the same world.
pub fn judge_faulted(sc: &Scenario, run: &TreeRun, fault_free: &Outcome, seed: u64) -> Option<Violation> {
    let tail = trace_tail(&run.state.trace, 14);
    if run.state.budget_hit {
        return Some(mk_violation(sc, "no-progress", "the build ends within 4 x (fault-free call count) + 64 intercepted calls", json!({"trace_tail": tail}), seed));
    }
    // a reported size that lies is not a short read: Err is acceptable there, Ok implies equal
    let only_short = sc.rules.iter().all(|s| (s.action == "limit" || s.action == "shortby") && s.call != "fstat");
    let must_equal = only_short && sc.nonutf8.is_none();
    match &run.outcome {
        Outcome::Built { .. } => {
            if &run.outcome != fault_free {
                return Some(mk_violation(
                    sc,
                    "ok-but-different-under-fault",
                    "under a fault, Ok implies the fault-free result (never an image built from part of a file or from a different file)",
                    json!({"faulted": run.outcome.short(), "fault_free": fault_free.short(), "trace_tail": tail}),
                    seed,
                ));
            }
            None
        }
        o => {
            if must_equal && !fault_free.fails() {
                return Some(mk_violation(
                    sc,
                    "short-read-changes-result",
                    "a short read is legal kernel behaviour: the result must equal the fault-free result",
                    json!({"faulted": o.short(), "fault_free": fault_free.short(), "trace_tail": tail}),
                    seed,
                ));
            }
            None
        }
    }
}

// ---------------------------------------------------------------------------------------------
// worker
// ---------------------------------------------------------------------------------------------

const READ_FAULTS: &[&str] = &["EIO", "EISDIR", "short-to-1", "short-to-3", "short-to-64", "EINTR", "EINTRx2"];
const OPEN_ERR: &[&str] = &["ENOENT", "EACCES", "EMFILE", "ENFILE", "EIO", "ELOOP", "ENAMETOOLONG", "ENOMEM"];
const STAT_ERR: &[&str] = &["EACCES", "EIO", "ELOOP", "ENAMETOOLONG"];

pub fn faults_for_event(trace: &[Event], i: usize) -> Vec<Vec<RuleSpec>> {
    let e = &trace[i];
    let nth = trace[..i].iter().filter(|x| x.call == e.call && x.path == e.path).count() as i64;
    let t = e.path.as_str();
    let mut v = vec![];
    match e.call {
        Call::Stat => {
            for er in STAT_ERR {
                v.push(vec![RuleSpec::errno("stat", t, nth, er, "stat-fail")]);
            }
        }
        Call::Open => {
            for er in OPEN_ERR {
                v.push(vec![RuleSpec::errno("open", t, nth, er, if *er == "ENOENT" { "vanish" } else { "open-fail" })]);
            }
        }
        Call::Read => {
            for a in READ_FAULTS {
                v.push(match *a {
                    "short-to-1" => vec![RuleSpec::limit("read", t, nth, 1, "read-short")],
                    "short-to-3" => vec![RuleSpec::limit("read", t, nth, 3, "read-short")],
                    "short-to-64" => vec![RuleSpec::limit("read", t, nth, 64, "read-short")],
                    "EINTR" => vec![RuleSpec::errno("read", t, nth, "EINTR", "read-eintr")],
                    "EINTRx2" => (0..2).map(|k| RuleSpec::errno("read", t, nth + k, "EINTR", "read-eintr")).collect(),
                    er => vec![RuleSpec::errno("read", t, nth, er, "read-fail")],
                });
            }
        }
        Call::Fstat => {
            v.push(vec![RuleSpec::errno("fstat", t, nth, "EIO", "fstat-fail")]);
            // the size a file reports is a hint (procfs, pipes, a file that grows while it is read)
            for n in [0usize, 1, 7, 1 << 20] {
                v.push(vec![RuleSpec::limit("fstat", t, nth, n, "size-lie")]);
            }
        }
        Call::Lseek => v.push(vec![RuleSpec::errno("lseek", t, nth, "ESPIPE", "lseek-fail")]),
        Call::Close => v.push(vec![RuleSpec::errno("close", t, nth, "EIO", "close-fail")]),
        _ => {}
    }
    v
}

/// 4 x the fault-free call count + 64; a read cap of c legitimately turns a read of n bytes
/// into n/c calls, which is added before the factor.
pub fn step_budget(profile: &[Event], read_cap: usize) -> u64 {
    let mut calls = profile.len() as u64;
    if read_cap > 0 {
        let bytes: i64 = profile.iter().filter(|e| e.call == Call::Read && e.ret > 0).map(|e| e.ret).sum();
        calls += bytes as u64 / read_cap as u64 + 1;
    }
    4 * calls + 64
}

fn faultable(trace: &[Event]) -> Vec<usize> {
    trace.iter().enumerate().filter(|(_, e)| matches!(e.call, Call::Stat | Call::Open | Call::Read | Call::Fstat | Call::Lseek | Call::Close) && !(e.call == Call::Stat && e.ret != 0)).map(|(i, _)| i).collect()
}

fn tree_hash(sc: &Scenario, fired: &[String]) -> u64 {
    let shape: Vec<(usize, &String)> = sc.edges.iter().map(|(p, _, k)| (p.len(), k)).collect();
    fnv(format!("{:?}|{:?}|{}|{:?}|{:?}|{}|{}", shape, fired, sc.read_cap, sc.missing, sc.nonutf8, fnv(format!("{:?}", sc.files).as_bytes()), sc.paths.len()).as_bytes())
}

fn ident_tokens(line: &str) -> Vec<String> {
    line.split(|c: char| !(c.is_ascii_alphanumeric() || c == '_')).filter(|w| !w.is_empty() && !w.chars().next().unwrap().is_ascii_digit()).map(|w| w.to_lowercase()).collect()
}

/// names defined in a file (labels, equ, def, set, define, macro), lower-cased
fn defined_names(text: &str) -> BTreeSet<String> {
    let mut s = BTreeSet::new();
    for l in text.lines() {
        let t = l.trim();
        if let Some(p) = t.find(':') {
            let n = &t[..p];
            if !n.is_empty() && n.chars().all(|c| c.is_ascii_alphanumeric() || c == '_') {
                s.insert(n.to_lowercase());
            }
        }
        for d in [".equ ", ".set ", ".def ", ".macro ", "#define ", ".define "] {
            if let Some(rest) = t.strip_prefix(d) {
                if let Some(n) = ident_tokens(rest).first() {
                    s.insert(n.clone());
                }
            }
        }
    }
    s
}

fn used_names(text: &str) -> BTreeSet<String> {
    let mut s = BTreeSet::new();
    for l in text.lines() {
        let t = l.trim();
        let body = match t.find(':') {
            Some(p) if t[..p].chars().all(|c| c.is_ascii_alphanumeric() || c == '_') => &t[p + 1..],
            _ => t,
        };
        for d in [".equ ", ".set ", ".def ", ".macro ", "#define ", ".define "] {
            if body.trim_start().starts_with(d) {
                // the defined name itself is not a use; the right-hand side is
                if let Some(eq) = body.find('=') {
                    s.extend(ident_tokens(&body[eq + 1..]));
                }
            }
        }
        if !body.trim_start().starts_with('.') && !body.trim_start().starts_with('#') {
            s.extend(ident_tokens(body));
        } else if body.trim_start().starts_with(".if") || body.trim_start().starts_with("#if") || body.trim_start().starts_with(".d") {
            s.extend(ident_tokens(body).into_iter().skip(1));
        }
    }
    s
}

struct Ctx<'a> {
    disk: &'a Disk,
    stats: &'a mut Stats,
    emit: &'a mut dyn FnMut(Violation),
    found: usize,
}

/// One world, fault-free: paste, build both sides, judge. Returns what the faulted runs need.
struct Base {
    flat: Flat,
    flat_out: Outcome,
    tree: TreeRun,
}

fn run_world(cx: &mut Ctx, sc: &Scenario, seed: u64, judge: bool) -> Option<Base> {
    let files = present_files(sc);
    let world = World { files: &files, cwd: &sc.cwd, caller: &sc.paths, links: &sc.dirlinks };
    let pasted = if files.contains_key(&sc.main_file) {
        incmodel::paste(&world, &sc.main_file)
    } else {
        // the main file itself is found nowhere: the build fails naming it
        Ok(Flat { text: format!(".error \"{}{}\"\n", incmodel::MARKER, sc.main), map: vec![(sc.main_file.clone(), 1)], undocumented: vec![], unresolvable: vec![sc.main.clone()], resolved: vec![], ambiguous: vec![] })
    };
    let flat = match pasted {
        Ok(f) => f,
        Err(e) => {
            cx.stats.harness_errors.push(e);
            return None;
        }
    };
    let mut clean = sc.clone();
    clean.rules.clear();
    clean.read_cap = 0;
    clean.nonutf8 = None;
    if let Err(e) = cx.disk.materialise(&clean) {
        cx.stats.harness_errors.push(e);
        return None;
    }
    let rs = cx.disk.root_str();
    let flat_out = run_flat(cx.disk, &flat.text.replace("$R", &rs), sc.hash_seed);
    let tree = match run_tree(cx.disk, &clean, u64::MAX) {
        Ok(t) => t,
        Err(e) => {
            cx.stats.harness_errors.push(e);
            return None;
        }
    };
    cx.stats.runs += 1;
    cx.stats.fault_free_runs += 1;
    cx.stats.steps += tree.state.steps;
    if judge {
        if let Some(v) = judge_world(&clean, &tree.outcome, &flat_out, &flat, &rs, &tree.state.trace, seed) {
            cx.found += 1;
            (cx.emit)(v);
        }
    }
    Some(Base { flat, flat_out, tree })
}

fn run_faulted(cx: &mut Ctx, sc: &Scenario, base: &Base, seed: u64, g: u64) -> u64 {
    let profile = &base.tree.state.trace;
    let fault_free = &base.tree.outcome;
    if sc.nonutf8.is_some() {
        if let Err(e) = cx.disk.materialise(sc) {
            cx.stats.harness_errors.push(e);
            return 0;
        }
    }
    let budget = step_budget(profile, sc.read_cap);
    let run = match run_tree(cx.disk, sc, budget) {
        Ok(r) => r,
        Err(e) => {
            cx.stats.harness_errors.push(e);
            return 0;
        }
    };
    if sc.nonutf8.is_some() {
        let mut clean = sc.clone();
        clean.nonutf8 = None;
        let _ = cx.disk.materialise(&clean);
    }
    cx.stats.runs += 1;
    cx.stats.steps += run.state.steps;
    let mut fired: Vec<String> = vec![];
    for (k, n) in fired_kinds(&run.state, &sc.rules) {
        for _ in 0..n {
            cx.stats.fired(&k);
        }
    }
    for (r, s) in run.state.rules.iter().zip(sc.rules.iter()) {
        if r.fired > 0 {
            fired.push(s.short());
        }
    }
    if let Some((f, _)) = &sc.nonutf8 {
        if opened_in(&run.state.trace, f) {
            cx.stats.fired("non-utf8");
            fired.push(format!("nonutf8:{}", basename(f)));
        }
    }
    if sc.read_cap > 0 && run.state.trace.iter().any(|e| e.call == Call::Read && e.ret > 0 && e.ret < e.req) {
        cx.stats.fired("read-cap");
        fired.push(format!("cap{}", sc.read_cap));
    }
    if !fired.is_empty() {
        cx.stats.runs_with_fired_fault += 1;
        cx.stats.distinct_nontrivial.insert(tree_hash(sc, &fired));
    }
    let depth_of = |path: &str| -> usize {
        let mut d = 0;
        let mut cur = basename(path).to_string();
        while let Some((p, _, _)) = sc.edges.iter().find(|(_, c, _)| basename(c) == cur) {
            d += 1;
            cur = basename(p).to_string();
            if d > 10 {
                break;
            }
        }
        d
    };
    cx.stats.probe("include_guard_with_exit_taken_at_a_second_inclusion", sc.files.values().any(|t| t.starts_with(".ifdef SHARED_LEAF_")) && sc.edges.iter().filter(|e| e.2 == "c2").count() >= 2);
    cx.stats.probe("included_file_is_a_device_node", {
        use std::os::unix::fs::FileTypeExt;
        sc.devices.iter().any(|d| std::fs::symlink_metadata(cx.disk.root.join(pb(d))).map(|m| m.file_type().is_char_device()).unwrap_or(false))
    });
    cx.stats.probe("tree_in_directories_whose_names_are_not_utf8", has_raw(&sc.main_file) || sc.paths.iter().any(|p| has_raw(p)));
    cx.stats.probe("fault_fired_on_a_file_at_depth_2_or_more", run.state.trace.iter().any(|e| e.rule >= 0 && depth_of(&e.path) >= 2));
    cx.stats.probe("build_failed_under_fault", run.outcome.fails() && !fault_free.fails());
    cx.stats.probe("build_rode_through_benign_fault", !run.outcome.fails() && !fired.is_empty());
    if matches!(run.outcome, Outcome::Panic(_)) && !fired.is_empty() && !matches!(fault_free, Outcome::Panic(_)) {
        cx.stats.panics_under_fault += 1;
    }
    // determinism: identical to the profile up to the first interfered event
    if sc.nonutf8.is_none() && sc.read_cap == 0 {
        let a: Vec<String> = canon_event_lines(profile);
        let b: Vec<String> = canon_event_lines(&run.state.trace);
        let first = run.state.trace.iter().position(|e| e.rule != -1).unwrap_or(b.len());
        let n = first.min(a.len()).min(b.len());
        if a[..n] != b[..n] {
            cx.stats.count("profile_prefix_divergences", 1);
            cx.stats.warnings.push(format!("faulted trace diverges from its profile before the first fault (g={})", g));
        }
        cx.stats.count("profile_prefix_checks", 1);
    }
    if cx.stats.samples.len() < 3 && !fired.is_empty() && g % 5 == 0 {
        cx.stats.samples.push(json!({"scenario": sc, "outcome": run.outcome.short(), "fault_free": fault_free.short(), "fired": fired, "trace": run.state.trace.iter().map(event_line).collect::<Vec<_>>()}));
    }
    // several files qualify for one include: a fault on one candidate legitimately leads to
    // another file; not judged (the statement does not say which one wins)
    let judged = base.flat.ambiguous.is_empty();
    if !judged {
        cx.stats.count("faulted_runs_not_judged_because_a_lookup_is_ambiguous", 1);
    }
    if let Some(v) = judge_faulted(sc, &run, fault_free, seed).filter(|_| judged) {
        cx.found += 1;
        (cx.emit)(v);
    }
    trace_digest(&run.state.trace) ^ fnv(run.outcome.short().replace(&cx.disk.root_str(), "$R").as_bytes())
}

pub fn worker(cfg: &WorkerCfg, emit: &mut dyn FnMut(Violation)) -> Stats {
    let mut stats = Stats::default();
    let disk = match Disk::new(&format!("inctree-w{:02}", cfg.worker)) {
        Ok(d) => d,
        Err(e) => {
            stats.harness_errors.push(e);
            return stats;
        }
    };
    let start = now_secs();
    let total = cfg.digest_only.unwrap_or(cfg.total);
    let mut g = cfg.worker;
    let mut cx = Ctx { disk: &disk, stats: &mut stats, emit, found: 0 };
    while g < total {
        if cfg.digest_only.is_none() && now_secs() - start > cfg.deadline_secs {
            cx.stats.count("stopped_by_deadline", 1);
            break;
        }
        let seed = mix(cfg.base_seed, &[0xC11, g]);
        let mut r = Rng::new(seed ^ 0xFA17);
        let sc = scenario_shape(&cfg.tier, cfg.base_seed, g);
        cx.stats.first_seed.get_or_insert(seed);
        cx.stats.last_seed = Some(seed);
        let base = match run_world(&mut cx, &sc, seed, true) {
            Some(b) => b,
            None => break,
        };
        let rs = disk.root_str();
        let mut digest = trace_digest(&base.tree.state.trace) ^ fnv(base.tree.outcome.short().replace(&rs, "$R").as_bytes()) ^ fnv(base.flat_out.short().replace(&rs, "$R").as_bytes()).rotate_left(7);
        let profile = base.tree.state.trace.clone();
        let opened: Vec<&(String, String, String)> = sc.edges.iter().filter(|(_, c, _)| opened_in(&profile, c)).collect();
        if matches!(base.flat_out, Outcome::Panic(_)) {
            cx.stats.exclude("pasted text panics in isolation (a C16 matter)");
        }
        if !base.flat.ambiguous.is_empty() {
            cx.stats.exclude("several files qualify for one include (which one wins is not stated)");
        }
        if !base.flat.undocumented.is_empty() {
            cx.stats.count("scenarios_with_an_include_outside_documented_places", 1);
        }
        // ---- probes -------------------------------------------------------------------------
        for k in ["w", "a", "p", "P", "c", "i", "I", "i^", "I^", "c2"] {
            cx.stats.probe(&format!("location_kind_{}_opened", k), opened.iter().any(|e| e.2 == k));
        }
        let depth = |c: &str| -> usize {
            let mut d = 1;
            let mut cur = c.to_string();
            while let Some((p, _, _)) = sc.edges.iter().find(|(_, ch, _)| *ch == cur) {
                if *p == sc.main_file || d > 10 {
                    break;
                }
                d += 1;
                cur = p.clone();
            }
            d
        };
        cx.stats.probe("nested_depth_3_or_more_opened", opened.iter().any(|e| depth(&e.1) >= 3));
        cx.stats.probe("relative_includepath_in_a_nested_file_found_through_a_search_dir", opened.iter().any(|e| (e.2 == "i" || e.2 == "i^") && sc.edges.iter().any(|pe| pe.1 == e.0 && matches!(pe.2.as_str(), "c" | "i" | "I" | "i^" | "I^" | "P"))));
        cx.stats.probe("exit_in_an_included_file_with_lines_after_it", opened.iter().any(|e| sc.files.get(&e.1).map(|t| t.lines().any(|l| l.trim() == ".exit")).unwrap_or(false)));
        cx.stats.probe("device_inside_an_include", opened.iter().any(|e| sc.files.get(&e.1).map(|t| t.contains(".device ")).unwrap_or(false)));
        cx.stats.probe("file_included_more_than_once", sc.edges.iter().filter(|e| e.2 == "c2").count() >= 2);
        cx.stats.probe("second_build_after_an_include_was_edited", false);
        cx.stats.probe("second_build_after_an_include_was_moved", false);
        cx.stats.probe("included_file_with_crlf_line_ends", opened.iter().any(|e| sc.files.get(&e.1).map(|t| t.contains("\r\n")).unwrap_or(false)));
        cx.stats.probe("included_file_without_final_newline", opened.iter().any(|e| sc.files.get(&e.1).map(|t| !t.is_empty() && !t.ends_with('\n')).unwrap_or(false)));
        cx.stats.probe("empty_included_file", opened.iter().any(|e| sc.files.get(&e.1).map(|t| t.trim().is_empty()).unwrap_or(false)));
        cx.stats.probe("include_found_through_a_search_directory_spelled_via_a_directory_alias_and_dotdot", !sc.dirlinks.is_empty() && profile.iter().any(|e| e.call == Call::Open && e.ret >= 0 && e.path.contains("/L0/../")));
        cx.stats.probe("include_written_with_a_leading_tilde_directory_opened", sc.edges.iter().any(|e| e.1.contains("/~/") && opened_in(&profile, &e.1)));
        cx.stats.probe("opened_file_with_a_control_character_in_a_comment", opened.iter().any(|e| sc.files.get(&e.1).map(|t| t.contains('\u{1a}') || t.contains('\u{0c}')).unwrap_or(false)));
        cx.stats.probe("included_file_whose_name_holds_a_backslash_opened", opened.iter().any(|e| basename(&e.1).contains('\\')));
        cx.stats.probe("chain_of_49_or_more_files_opened", opened.len() >= 49);
        cx.stats.probe("included_file_is_a_symbolic_link_and_includes_a_sibling", opened.iter().any(|e| sc.symlinks.contains_key(&e.1) && sc.files.get(&e.1).map(|t| t.lines().any(|l| parse_include(l).is_some())).unwrap_or(false)));
        cx.stats.probe("cwd_deep_below_the_root", sc.cwd.contains('/'));
        cx.stats.probe("cwd_is_the_main_files_directory", incmodel::dirname(&sc.main_file) == sc.cwd);
        cx.stats.probe("include_inside_a_conditional_branch", {
            let mut hit = false;
            for t in sc.files.values() {
                let mut d = 0i32;
                for l in t.lines() {
                    let x = l.trim();
                    if x.starts_with(".if") || x.starts_with("#if") {
                        d += 1;
                    } else if x.starts_with(".endif") {
                        d -= 1;
                    } else if d > 0 && parse_include(l).is_some() {
                        hit = true;
                    }
                }
            }
            hit
        });
        {
            let mut c2p = false;
            let mut p2c = false;
            for e in &opened {
                if let (Some(pt), Some(ct)) = (sc.files.get(&e.0), sc.files.get(&e.1)) {
                    if defined_names(ct).intersection(&used_names(pt)).next().is_some() {
                        c2p = true;
                    }
                    if defined_names(pt).intersection(&used_names(ct)).next().is_some() {
                        p2c = true;
                    }
                }
            }
            cx.stats.probe("definition_crossing_child_to_parent", c2p);
            cx.stats.probe("definition_crossing_parent_to_child", p2c);
        }
        cx.stats.probe("failing_program_in_a_tree", base.flat_out.fails() && !opened.is_empty());
        cx.stats.distinct_states.insert(fnv(format!("{:?}|{:?}", sc.edges.iter().map(|e| e.2.clone()).collect::<Vec<_>>(), base.flat_out.fails()).as_bytes()));
        if !opened.is_empty() {
            cx.stats.distinct_nontrivial.insert(tree_hash(&sc, &[]));
        }
        if cx.stats.samples.is_empty() || (cx.stats.samples.len() < 2 && opened.len() >= 2) {
            cx.stats.samples.push(json!({"scenario": sc, "tree_outcome": base.tree.outcome.short(), "pasted_outcome": base.flat_out.short(), "pasted_text": base.flat.text, "trace": profile.iter().map(event_line).collect::<Vec<_>>()}));
        }
        // ---- other worlds: one used directory taken out of its documented place ---------
        // (the model knows the documented rules, so these are judged like any other world:
        // found elsewhere and equal to the paste, or an error naming the include)
        if g % 3 == 0 && !base.tree.outcome.fails() {
            for e in opened.iter().take(4) {
                let mut v = sc.clone();
                let mut label = "";
                match e.2.as_str() {
                    "c" | "c2" => {
                        v.paths.clear();
                        label = "caller_dir";
                    }
                    "i" | "I" | "i^" | "I^" => {
                        for t in v.files.values_mut() {
                            *t = t.lines().map(|l| if l.trim_start().starts_with(".includepath") { "" } else { l }).collect::<Vec<_>>().join("\n") + "\n";
                        }
                        label = "includepath";
                    }
                    "w" => {
                        v.cwd = "another_cwd".into();
                        if !v.main.starts_with("$R") {
                            v.main = rel_from("another_cwd", &v.main_file);
                        }
                        v.paths = v.paths.iter().map(|p| if p.starts_with("$R") { p.clone() } else { format!("$R/{}", incmodel::join_norm_l(&sc.cwd, p, &sc.dirlinks).unwrap_or_default()) }).collect();
                        label = "cwd";
                    }
                    "p" | "P" => {
                        if let Some(t) = v.files.remove(&e.1) {
                            v.files.insert(format!("nowhere/{}", basename(&e.1)), t);
                            label = "including_dir";
                        }
                    }
                    _ => {}
                }
                if label.is_empty() {
                    continue;
                }
                v.config = "moved".into();
                if let Some(b2) = run_world(&mut cx, &v, seed, true) {
                    cx.stats.count("worlds_with_a_directory_taken_out_of_place", 1);
                    cx.stats.probe(&format!("location_{}_exercised_and_necessary", label), b2.tree.outcome.fails());
                }
            }
        }
        // ---- a world without one of the files ---------------------------------------------
        let file_keys: Vec<String> = sc.files.keys().filter(|k| **k != sc.main_file || r.chance(1, 6)).cloned().collect();
        if sc.config == "missing" && !file_keys.is_empty() {
            let mut f = sc.clone();
            let opened_keys: Vec<&String> = file_keys.iter().filter(|k| opened_in(&profile, k)).collect();
            let m = if !opened_keys.is_empty() && r.chance(4, 5) { opened_keys[r.usize(opened_keys.len())].clone() } else { file_keys[r.usize(file_keys.len())].clone() };
            let reached = opened_in(&profile, &m);
            // now and then a file whose name differs from the missing one only in case lies
            // where it was (a stale `config.inc` for a removed `Config.inc`): not the file named
            if r.chance(1, 3) {
                let b = basename(&m).to_string();
                let v = if b.to_uppercase() != b { b.to_uppercase() } else { b.to_lowercase() };
                if v != b {
                    let decoy = format!("{}{}", &m[..m.len() - b.len()], v);
                    if !f.files.contains_key(&decoy) {
                        f.files.insert(decoy, "    inc r6 ; a stale file whose name differs in case\n".to_string());
                        cx.stats.probe("missing_include_with_a_case_variant_in_its_place", reached);
                    }
                }
            }
            f.missing = Some(m);
            if let Some(b2) = run_world(&mut cx, &f, seed, true) {
                if reached {
                    cx.stats.fired("missing");
                    cx.stats.runs_with_fired_fault += 1;
                    cx.stats.distinct_nontrivial.insert(tree_hash(&f, &["missing".to_string()]));
                }
                cx.stats.probe("missing_include_reached_and_reported", reached && b2.tree.outcome.fails());
                digest ^= fnv(b2.tree.outcome.short().replace(&rs, "$R").as_bytes());
            }
        }
        // ---- faulted configurations ---------------------------------------------------------
        if let Err(e) = disk.materialise(&sc) {
            cx.stats.harness_errors.push(e);
            break;
        }
        let evs = faultable(&profile);
        match sc.config.as_str() {
            "nonutf8" if !sc.files.is_empty() => {
                let keys: Vec<&String> = sc.files.keys().collect();
                let k = keys[r.usize(keys.len())].clone();
                let len = sc.files[&k].len().max(1);
                let mut f = sc.clone();
                f.nonutf8 = Some((k, r.usize(len)));
                digest ^= run_faulted(&mut cx, &f, &base, seed, g);
            }
            "twice" if !opened.is_empty() => {
                // the same thread builds again after one included file was edited or moved to
                // another documented place (a cache that survives a build serves stale lines)
                let e = opened[r.usize(opened.len())];
                let mut f = sc.clone();
                if let Some(text) = sc.files.get(&e.1) {
                    let written = incmodel::basename(&e.1).to_string();
                    let dest = format!("{}/{}", sc.cwd, written);
                    if r.chance(1, 4) && !sc.symlinks.contains_key(&e.1) && !sc.devices.contains(&e.1) {
                        // the file is not there for the first build (which fails naming it) and
                        // is created before the second (a memory of what was missing serves a
                        // stale "not found")
                        f.missing = Some(e.1.clone());
                        f.then_write.insert(e.1.clone(), text.clone());
                        cx.stats.probe("second_build_after_a_missing_include_was_created", true);
                    } else if r.chance(1, 2) || sc.files.contains_key(&dest) || e.2 == "w" || e.2 == "a" {
                        f.then_write.insert(e.1.clone(), format!("    ldi r20, {}\n{}", 10 + r.below(200), text));
                        cx.stats.probe("second_build_after_an_include_was_edited", true);
                    } else if let Some(name) = sc.files.values().flat_map(|t| t.lines()).filter_map(parse_include).find(|n| basename(n) == written) {
                        // moved to "the path as written" relative to the cwd
                        let clash = |d: &str| -> bool {
                            // a component of the new path is a plain file (a decoy), or the new
                            // path is a directory of the tree
                            let mut anc = d;
                            while let Some(i) = anc.rfind('/') {
                                anc = &anc[..i];
                                if sc.files.contains_key(anc) {
                                    return true;
                                }
                            }
                            let pre = format!("{}/", d);
                            sc.files.keys().any(|k| k.starts_with(&pre))
                        };
                        if let Some(d) = incmodel::join_norm_l(&sc.cwd, &name, &sc.dirlinks).filter(|d| !clash(d)) {
                            f.then_remove.push(e.1.clone());
                            f.then_write.insert(d, format!("    ldi r21, {}\n{}", 10 + r.below(200), text));
                            cx.stats.probe("second_build_after_an_include_was_moved", true);
                        }
                    }
                    if let Some(d) = run_twice(&mut cx, &f, seed) {
                        digest ^= d;
                    }
                    if let Err(e) = disk.materialise(&sc) {
                        cx.stats.harness_errors.push(e);
                        break;
                    }
                }
            }
            "cap" => {
                let mut f = sc.clone();
                f.read_cap = [1usize, 3, 64][r.usize(3)];
                digest ^= run_faulted(&mut cx, &f, &base, seed, g);
            }
            "appear" => {
                // the files of one .includepath directory are put there by someone else while
                // the build is under way
                let ipdirs: BTreeSet<String> = sc
                    .edges
                    .iter()
                    .filter(|e| e.2.starts_with('i') || e.2.starts_with('I'))
                    .filter_map(|e| {
                        let comps: Vec<&str> = e.1.split('/').collect();
                        comps.iter().rposition(|c| c.starts_with("ip") && c[2..].trim_start_matches("sub").chars().all(|d| d.is_ascii_digit())).map(|i| comps[..=i].join("/"))
                    })
                    .collect();
                let ipdirs: Vec<String> = ipdirs.into_iter().collect();
                if !ipdirs.is_empty() && base.flat.ambiguous.is_empty() && sc.symlinks.is_empty() && sc.dirlinks.is_empty() {
                    let d = ipdirs[r.usize(ipdirs.len())].clone();
                    let pre = format!("{}/", d);
                    let files: Vec<String> = sc.files.keys().filter(|k| k.starts_with(&pre) && !sc.devices.contains(*k)).cloned().collect();
                    if !files.is_empty() {
                        // how many line events there are: a run in which the files never appear
                        // would not tell (it ends early), so count in the full world
                        match run_tree_appear(&disk, &sc, &[], 0) {
                            Ok(count) if count.line_events > 0 => {
                                let k = 1 + r.below(count.line_events);
                                let mut f = sc.clone();
                                f.appear = Some((files.clone(), k));
                                match run_tree_appear(&disk, &f, &files, k) {
                                    Ok(a) => {
                                        cx.stats.runs += 1;
                                        cx.stats.steps += a.run.state.steps;
                                        cx.stats.fired("world-change");
                                        cx.stats.runs_with_fired_fault += 1;
                                        let names: BTreeSet<&str> = files.iter().map(|f| basename(f)).collect();
                                        let looked_before = a.change_pos.map(|p| a.run.state.trace[..p.min(a.run.state.trace.len())].iter().any(|e| matches!(e.call, Call::Stat | Call::Open) && names.contains(basename(&e.path)))).unwrap_or(true);
                                        cx.stats.probe("files_appeared_in_an_includepath_directory_before_anything_looked_for_them", a.change_pos.is_some() && !looked_before);
                                        cx.stats.probe("files_appeared_after_the_includepath_directive_and_before_the_include", a.change_pos.is_some() && !looked_before && a.change_pos.unwrap_or(0) > 0 && a.run.outcome == base.tree.outcome && !base.tree.outcome.fails());
                                        digest ^= fnv(a.run.outcome.short().replace(&rs, "$R").as_bytes());
                                        if let Some(v) = judge_appear(&f, &files, &a, &base.tree.outcome, seed) {
                                            cx.found += 1;
                                            (cx.emit)(v);
                                        }
                                    }
                                    Err(e) => cx.stats.harness_errors.push(e),
                                }
                            }
                            Ok(_) => {}
                            Err(e) => cx.stats.harness_errors.push(e),
                        }
                        if let Err(e) = disk.materialise(&sc) {
                            cx.stats.harness_errors.push(e);
                            break;
                        }
                    }
                }
            }
            "enum" | "pair" if !evs.is_empty() => {
                let mut f = sc.clone();
                for _ in 0..(if sc.config == "pair" { 2 } else { 1 }) {
                    let i = evs[r.usize(evs.len())];
                    let opts = faults_for_event(&profile, i);
                    if !opts.is_empty() {
                        f.rules.extend(opts[r.usize(opts.len())].clone());
                    }
                }
                digest ^= run_faulted(&mut cx, &f, &base, seed, g);
            }
            _ => {}
        }
        if cfg.tier == "thorough" && g % 5 == 0 && cfg.digest_only.is_none() {
            // every call x every applicable fault kind, every file missing, every cap
            for i in &evs {
                for rules in faults_for_event(&profile, *i) {
                    let mut f = sc.clone();
                    f.rules = rules;
                    f.config = "enum-all".into();
                    run_faulted(&mut cx, &f, &base, seed, g);
                }
            }
            for cap in [1usize, 3, 64] {
                let mut f = sc.clone();
                f.read_cap = cap;
                f.config = "enum-all".into();
                run_faulted(&mut cx, &f, &base, seed, g);
            }
            for k in sc.files.keys() {
                let mut f = sc.clone();
                f.missing = Some(k.clone());
                f.config = "enum-all".into();
                if run_world(&mut cx, &f, seed, true).is_some() && opened_in(&profile, k) {
                    cx.stats.fired("missing");
                }
            }
            cx.stats.count("scenarios_with_every_single_fault_enumerated", 1);
        }
        cx.stats.digests.insert(g, digest);
        cx.stats.outcome_digests.insert(g, fnv(base.tree.outcome.short().replace(&rs, "$R").as_bytes()) ^ fnv(base.flat_out.short().replace(&rs, "$R").as_bytes()).rotate_left(7));
        if cx.found >= cfg.max_violations {
            break;
        }
        g += cfg.nworkers;
    }
    let _ = std::env::set_current_dir("/");
    stats
}

pub fn replay(scv: &Value) -> Result<Option<Violation>, String> {
    let sc: Scenario = serde_json::from_value(scv.clone()).map_err(|e| e.to_string())?;
    let disk = Disk::new("inctree-w99")?;
    let mut stats = Stats::default();
    let mut got: Vec<Violation> = vec![];
    let mut got_appear: Option<Violation> = None;
    {
        let mut emit = |v: Violation| got.push(v);
        let mut cx = Ctx { disk: &disk, stats: &mut stats, emit: &mut emit, found: 0 };
        if !sc.then_write.is_empty() || !sc.then_remove.is_empty() {
            run_twice(&mut cx, &sc, 0);
        }
        if let Some((files, k)) = sc.appear.clone() {
            let mut plain = sc.clone();
            plain.appear = None;
            if let Some(base) = run_world(&mut cx, &plain, 0, false) {
                if base.flat.ambiguous.is_empty() {
                    let a = run_tree_appear(&disk, &sc, &files, k)?;
                    if let Some(v) = judge_appear(&sc, &files, &a, &base.tree.outcome, 0) {
                        got_appear = Some(v);
                    }
                }
            }
        }
        let base = if cx.found == 0 && sc.appear.is_none() { run_world(&mut cx, &sc, 0, true) } else { None };
        let faulted = !sc.rules.is_empty() || sc.read_cap > 0 || sc.nonutf8.is_some();
        if let (Some(base), true) = (base, faulted) {
            disk.materialise(&sc)?;
            run_faulted(&mut cx, &sc, &base, 0, 0);
        }
    }
    let _ = std::env::set_current_dir("/");
    if let Some(e) = stats.harness_errors.first() {
        return Err(e.clone());
    }
    if got_appear.is_some() {
        return Ok(got_appear);
    }
    Ok(got.into_iter().next())
}

/// Structure-aware line deletion: single plain lines, and whole balanced blocks.
fn deletions(text: &str) -> Vec<String> {
    let lines: Vec<&str> = text.lines().collect();
    let is_open = |t: &str| t.starts_with(".if") || t.starts_with("#if") || t.starts_with(".macro");
    let is_close = |t: &str| t.starts_with(".endif") || t.starts_with("#endif") || t.starts_with(".endm");
    let is_mid = |t: &str| t.starts_with(".else") || t.starts_with(".elif") || t.starts_with("#else") || t.starts_with("#elif");
    let mut out = vec![];
    let join = |ls: Vec<&str>| -> String { if ls.is_empty() { String::new() } else { ls.join("\n") + "\n" } };
    let mut i = 0;
    while i < lines.len() {
        let t = lines[i].trim();
        if is_open(t) {
            // find the matching close
            let mut d = 0;
            let mut j = i;
            while j < lines.len() {
                let u = lines[j].trim();
                if is_open(u) {
                    d += 1;
                } else if is_close(u) {
                    d -= 1;
                    if d == 0 {
                        break;
                    }
                }
                j += 1;
            }
            if j < lines.len() {
                let mut l2 = lines.clone();
                l2.drain(i..=j);
                out.push(join(l2));
            }
        } else if !is_close(t) && !is_mid(t) {
            let mut l2 = lines.clone();
            l2.remove(i);
            out.push(join(l2));
        }
        i += 1;
    }
    out
}

pub fn shrink(scv: &Value) -> Vec<Value> {
    let sc: Scenario = match serde_json::from_value(scv.clone()) {
        Ok(s) => s,
        Err(_) => return vec![],
    };
    let mut out = vec![];
    let mut push = |s: Scenario| out.push(serde_json::to_value(s).unwrap());
    if !sc.rules.is_empty() {
        let mut s = sc.clone();
        s.rules.clear();
        push(s);
        for i in 0..sc.rules.len() {
            let mut s = sc.clone();
            s.rules.remove(i);
            push(s);
        }
    }
    if sc.read_cap > 0 {
        let mut s = sc.clone();
        s.read_cap = 0;
        push(s);
    }
    if sc.nonutf8.is_some() {
        let mut s = sc.clone();
        s.nonutf8 = None;
        push(s);
    }
    if !sc.then_write.is_empty() || !sc.then_remove.is_empty() {
        let mut s = sc.clone();
        s.then_write.clear();
        s.then_remove.clear();
        push(s);
    }
    for k in sc.symlinks.keys() {
        let mut s = sc.clone();
        s.symlinks.remove(k);
        push(s);
    }
    // files that nothing includes (any more)
    let included: BTreeSet<String> = sc.files.values().flat_map(|t| t.lines().filter_map(parse_include).map(|n| basename(&n).to_string()).collect::<Vec<_>>()).collect();
    for k in sc.files.keys() {
        if *k != sc.main_file && !included.contains(basename(k)) {
            let mut s = sc.clone();
            s.files.remove(k);
            s.edges.retain(|e| e.0 != *k && e.1 != *k);
            if s.missing.as_deref() == Some(k.as_str()) {
                continue;
            }
            push(s);
        }
    }
    // inline a child into its parent (pasting is what including means): fewer files
    for (k, t) in &sc.files {
        for (i, l) in t.lines().enumerate() {
            if let Some(n) = parse_include(l) {
                if let Some((ck, ct)) = sc.files.iter().find(|(ck, _)| basename(ck) == basename(&n)) {
                    if ct.lines().any(|x| x.trim() == ".exit") || sc.missing.as_deref() == Some(ck.as_str()) || ck == k {
                        continue;
                    }
                    let mut lines: Vec<String> = t.lines().map(|x| x.to_string()).collect();
                    lines.splice(i..=i, ct.lines().map(|x| x.to_string()));
                    let mut s = sc.clone();
                    s.files.insert(k.clone(), lines.join("\n") + "\n");
                    push(s);
                }
            }
        }
    }
    for (k, t) in &sc.files {
        for cand in deletions(t).into_iter().take(80) {
            let mut s = sc.clone();
            s.files.insert(k.clone(), cand);
            push(s);
        }
    }
    if sc.paths.len() > 0 {
        for i in 0..sc.paths.len() {
            let mut s = sc.clone();
            s.paths.remove(i);
            push(s);
        }
    }
    if sc.hash_seed != 0 {
        let mut s = sc.clone();
        s.hash_seed = 0;
        push(s);
    }
    if sc.config != "min" {
        let mut s = sc.clone();
        s.config = "min".into();
        s.intent = String::new();
        push(s);
    }
    out
}
