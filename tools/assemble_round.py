import json, os, shutil, re, glob
R='/tmp/round11'
conf={}
for l in open(f'{R}/confirm.jsonl'):
    l=l.strip()
    if l.startswith('{'):
        d=json.loads(l); conf[d['dir']]=d
det={}
files=[f'{R}/detect.jsonl']+sorted(glob.glob(f'{R}/detect-?.jsonl'))+sorted(glob.glob(f'{R}/detect2-?.jsonl'))+sorted(glob.glob(f'{R}/detect3-?.jsonl'))+sorted(glob.glob(f'{R}/detect4-?.jsonl'))+sorted(glob.glob(f'{R}/detect5-?.jsonl'))+sorted(glob.glob(f'{R}/detect6-?.jsonl'))+sorted(glob.glob(f'{R}/detect7-?.jsonl'))+sorted(glob.glob(f'{R}/detect10-?.jsonl'))
for f in files:
    if not os.path.exists(f): continue
    phase='after the strengthening of this round' if any(x in f for x in ('detect2','detect3','detect5','detect7')) else 'as the checks were when the change arrived'
    if f.endswith('detect2-c.jsonl') or f.endswith('detect-b.jsonl'):
        phase={'detect2-c.jsonl':'with the checks as at the end of round 11 (not run before its strengthening)','detect-b.jsonl':'with the directory-alias dimension (built before the change arrived) and the size-lie fault kind (added on reading the reports of C11-z1/C11-p1)'}[os.path.basename(f)]
    for l in open(f):
        d=json.loads(l); d['phase']=phase; det.setdefault(d['dir'],[]).append(d)
for d in sorted(conf):
    sid=os.path.basename(d)
    m=re.match(r'^(C\d\d)-([zpqkm])(\d)$', sid)
    if not m: continue
    c=conf[d]
    assert c['applies'] and '67 passed' in c['suite'] and c['demo_exit_with_change']!=0 and c['demo_exit_without_change']==0, sid
    dst=f'/verif/seeded/{sid}'
    os.makedirs(dst, exist_ok=True)
    shutil.copy(f'{d}/patch.diff', dst)
    demo='demo.rs' if os.path.exists(f'{d}/demo.rs') else 'demo.sh'
    shutil.copy(f'{d}/{demo}', dst)
    notes=open(f'{d}/NOTES.md').read() if os.path.exists(f'{d}/NOTES.md') else ''
    open(f'{dst}/NOTES.md','w').write(notes)
    title=next((l.strip('# ').strip() for l in notes.splitlines() if l.strip()), '')
    dets=det.get(d,[])
    meta={'id':sid,'property':m.group(1),'title':title,'needs_to_manifest':'see NOTES.md',
      'author':'independent sub-agent given only the property text and its own scratch worktree of /repo at 3a8b0b5 (rounds 11-13; batch z: unbiased brief, batch p: brief asking for cooperating sites, histories, unusual file-system objects or process environment, batches q and k: unbiased brief plus the titles of all earlier submissions for the property, not to be repeated)',
      'confirmed_in_scratch_worktree':{'what_i_ran':'tools/confirm_mutant.sh: git apply patch.diff in /tmp/wt-confirm; cargo test --workspace --no-fail-fast --offline; the demonstration with the change; git checkout; the demonstration without the change',
        'patch_applies':True,'existing_suite':c['suite'],'demo':demo,'demo_exit_with_change':c['demo_exit_with_change'],'demo_exit_without_change':c['demo_exit_without_change']},
      'detection':[{'check':x['check'],'tier':'quick','phase':x['phase'],'exit':x['rc'],'violation_signatures':[s for s in x['signatures'].split(';') if s],'replays_of_its_violations_that_fail_on_the_unchanged_tree':x['false_alarm_replays'],'runs_before_stop':x['runs']} for x in dets],
      'how_to_rerun':f'tools/try_mutant.sh /verif/seeded/{sid}/patch.diff {m.group(1)} quick'}
    json.dump(meta, open(f'{dst}/meta.json','w'), indent=1)
    print(sid, [(x['check'],x['rc'],x['phase'][:5]) for x in dets])
