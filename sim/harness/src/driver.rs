//! The driver: forks worker processes, collects statistics and violations, runs the
//! determinism self-check, minimises, writes replay files and evidence (DESIGN.md 3.4, 3.6, 4).

use crate::common::*;
use crate::{cli, hexio, inctree, multibuild};
use serde_json::{json, Value};
use std::collections::BTreeMap;
use std::io::{BufRead, BufReader, Write};
use std::process::{Command, Stdio};

pub struct EngineDef {
    pub property: &'static str,
    pub name: &'static str,
    pub level: &'static str,
    pub worker: fn(&WorkerCfg, &mut dyn FnMut(Violation)) -> Stats,
    pub replay: fn(&Value) -> Result<Option<Violation>, String>,
    pub shrink: fn(&Value) -> Vec<Value>,
    /// (total runs, wall-clock cap for starting new runs, runs compared in the self-check)
    pub budget: fn(&str) -> (u64, f64, u64),
    pub rule: &'static str,
    pub assumptions: &'static [&'static str],
    pub real: &'static [&'static str],
    pub simulated: &'static [&'static str],
}

pub fn engines() -> Vec<EngineDef> {
    vec![
        EngineDef {
            property: "C07",
            name: "hexio",
            level: "fault_enumeration",
            worker: hexio::worker,
            replay: hexio::replay,
            shrink: hexio::shrink,
            budget: |tier| if tier == "thorough" { (240_000, 1500.0, 2000) } else { (7_000, 150.0, 64) },
            rule: "Scenario g of a run: the first indices enumerate the property's length set (every length < 600 and every length within a record of the 64 KiB boundaries, both writers) fault-free; the rest are drawn from seed mix(VERIF_SEED, g): writer, length class, fill, pre-existing longer file, write cap, and - placed inside the call sequence observed by a fault-free profile run - single faults (ENOSPC, EIO, EDQUOT, EFBIG, short-by-1, short-to-1, EINTR, EINTRx3, write->0) at one write position, pairs of faults, open() failures, or RLIMIT_FSIZE = n. Non-trivial: a fault rule, cap or kernel limit actually fired during the writer call, or (fault-free) the image is non-empty; distinct by (writer, length, cap, pre-existing, fired-rule list, limit).",
            assumptions: &[
                "the independent reader in sim/harness/src/hexread.rs implements the Intel HEX specification (types 00/01/02/04, 03/05 ignored)",
                "the BuildResult images are what the assembler can produce: any byte string up to the largest flash (524288 bytes), plus the 1 MiB boundary and up to 8 MiB of the default device in thorough",
                "simlibc intercepts every libc call the writers make (open64, write, writev, close, fsync, ftruncate, rename, unlink)",
                "release semantics: overflow-checks and debug-assertions off, as cargo install builds",
                "the public fields of a BuildResult may be changed in place between two calls (same buffers, other bytes); an earlier call - successful, or failed on this very output - never excuses the judged one",
                "a configuration knob the writers read from the environment (a name outside the usual ones) is set to menu values in an extra run: Err is acceptable, Ok implies an exactly right file; an output path names what the kernel resolves it to (a '..' after a link to a directory leaves the link's target)",
                "what is at the output path beforehand never excuses a wrong file after Ok: junk, a longer file, a symbolic link, or the right file cut short / with a record moved (made by a healthy call of the same writer, then damaged)",
                "two callers writing different files: with nothing injected, a call that returns Ok alone returns Ok next to the other one (also below a directory that does not exist yet); the reverse is not demanded",
            ],
            real: &["avra_lib::writer (write_code_hex, write_eeprom_hex, generate_hex)", "ihex crate", "Rust std fs/io", "kernel tmpfs holding the file bytes", "kernel RLIMIT_FSIZE enforcement"],
            simulated: &["outcome of open/write/close at the libc boundary (which call fails, with what errno, how short)", "hash keys (getrandom)", "logical clock"],
        },
        EngineDef {
            property: "C11",
            name: "inctree",
            level: "fault_enumeration",
            worker: inctree::worker,
            replay: inctree::replay,
            shrink: inctree::shrink,
            budget: |tier| if tier == "thorough" { (600_000, 1500.0, 2000) } else { (40_000, 150.0, 64) },
            rule: inctree::RULE,
            assumptions: inctree::ASSUMPTIONS,
            real: &["avra_lib::builder::build_file / build_str and everything below (parser, directives, passes)", "Rust std fs/io", "kernel tmpfs holding the include tree"],
            simulated: &["outcome of statx/open/read/close at the libc boundary", "layout and contents of the include tree", "process working directory", "hash keys (getrandom)", "logical clock"],
        },
        EngineDef {
            property: "C17",
            name: "multibuild",
            level: "exploration",
            worker: multibuild::worker,
            replay: multibuild::replay,
            shrink: multibuild::shrink,
            budget: |tier| if tier == "thorough" { (600_000, 1500.0, 2000) } else { (16_000, 150.0, 64) },
            rule: multibuild::RULE,
            assumptions: multibuild::ASSUMPTIONS,
            real: &["avra_lib (all of it) called from 1-4 real OS threads", "the process-global DEVICES table, thread-locals and statics of the tree as they are", "Rust std", "kernel tmpfs"],
            simulated: &["which caller thread runs at every yield point (token scheduler)", "hash keys per thread (getrandom)", "logical clock", "mid-build I/O faults on includes", "the history of builds in the process"],
        },
        EngineDef {
            property: "C18",
            name: "cli",
            level: "fault_enumeration",
            worker: cli::worker,
            replay: cli::replay,
            shrink: cli::shrink,
            budget: |tier| if tier == "thorough" { (200_000, 1500.0, 1000) } else { (8_000, 150.0, 64) },
            rule: cli::RULE,
            assumptions: cli::ASSUMPTIONS,
            real: &["the avra-rs binary built from the tree with the guard off (cargo build of the real package, build.rs included)", "avra_lib in-process for the reference build", "kernel: process spawn, tmpfs, RLIMIT_FSIZE, /dev/full"],
            simulated: &["outcome of every libc call the binary makes on its sources, includes, outputs and stdout (LD_PRELOAD simlibc)", "command line, cwd, environment (XDG_CONFIG_HOME), pre-existing files", "hash keys", "logical clock"],
        },
    ]
}

fn engine_for(id: &str) -> Option<EngineDef> {
    engines().into_iter().find(|e| e.property == id || e.name == id)
}

fn verif_dir() -> std::path::PathBuf {
    std::env::var("VERIF_DIR").map(std::path::PathBuf::from).unwrap_or_else(|_| std::path::PathBuf::from("/verif"))
}

fn nworkers() -> u64 {
    if let Ok(v) = std::env::var("VERIF_WORKERS") {
        if let Ok(n) = v.parse::<u64>() {
            return n.max(1);
        }
    }
    std::thread::available_parallelism().map(|n| n.get() as u64).unwrap_or(4).min(16)
}

// ---------------------------------------------------------------------------------------------
// worker side
// ---------------------------------------------------------------------------------------------

pub fn worker_main(args: &[String]) -> i32 {
    // worker <engine> <tier> <seed> <w> <n> <total> <deadline> [<digest-only>]
    if args.len() < 7 {
        eprintln!("worker: bad arguments");
        return 2;
    }
    let e = match engine_for(&args[0]) {
        Some(e) => e,
        None => return 2,
    };
    let cfg = WorkerCfg {
        tier: args[1].clone(),
        base_seed: args[2].parse().unwrap_or(1),
        worker: args[3].parse().unwrap_or(0),
        nworkers: args[4].parse().unwrap_or(1),
        total: args[5].parse().unwrap_or(0),
        deadline_secs: args[6].parse().unwrap_or(60.0),
        digest_only: args.get(7).and_then(|s| s.parse().ok()),
        max_violations: 4,
    };
    silence_panics();
    let stdout = std::io::stdout();
    let mut emit = |v: Violation| {
        let mut o = stdout.lock();
        let _ = writeln!(o, "V {}", serde_json::to_string(&v).unwrap());
        let _ = o.flush();
    };
    let stats = (e.worker)(&cfg, &mut emit);
    let mut o = stdout.lock();
    let _ = writeln!(o, "S {}", serde_json::to_string(&stats).unwrap());
    let _ = o.flush();
    0
}

pub fn judge_one(input: &str) -> i32 {
    silence_panics();
    let v: Value = match serde_json::from_str(input) {
        Ok(v) => v,
        Err(e) => {
            eprintln!("judge-one: {}", e);
            return 2;
        }
    };
    let en = v["engine"].as_str().unwrap_or("");
    let e = match engine_for(en) {
        Some(e) => e,
        None => return 2,
    };
    match (e.replay)(&v["scenario"]) {
        Ok(r) => {
            println!("{}", serde_json::to_string(&json!({ "violation": r })).unwrap());
            0
        }
        Err(err) => {
            eprintln!("judge-one: {}", err);
            2
        }
    }
}

// ---------------------------------------------------------------------------------------------
// parent side
// ---------------------------------------------------------------------------------------------

struct WorkerResult {
    stats: Option<Stats>,
    violations: Vec<Violation>,
    status: Option<i32>,
    stderr_tail: String,
}

fn spawn_workers(e: &EngineDef, tier: &str, seed: u64, n: u64, total: u64, deadline: f64, digest_only: Option<u64>) -> Vec<WorkerResult> {
    let exe = std::env::current_exe().expect("current_exe");
    let mut handles = vec![];
    for w in 0..n {
        let mut cmd = Command::new(&exe);
        cmd.arg("worker").arg(e.name).arg(tier).arg(seed.to_string()).arg(w.to_string()).arg(n.to_string()).arg(total.to_string()).arg(format!("{}", deadline));
        if let Some(d) = digest_only {
            cmd.arg(d.to_string());
        }
        cmd.stdin(Stdio::null()).stdout(Stdio::piped()).stderr(Stdio::piped());
        let mut child = match cmd.spawn() {
            Ok(c) => c,
            Err(err) => {
                eprintln!("cannot spawn worker: {}", err);
                continue;
            }
        };
        let out = child.stdout.take().unwrap();
        let err = child.stderr.take().unwrap();
        let hard_limit = deadline * 3.0 + 300.0;
        let h = std::thread::spawn(move || {
            let errh = std::thread::spawn(move || {
                let mut tail = String::new();
                for l in BufReader::new(err).lines().flatten() {
                    tail.push_str(&l);
                    tail.push('\n');
                    if tail.len() > 8000 {
                        tail = tail[tail.len() - 4000..].to_string();
                    }
                }
                tail
            });
            let mut res = WorkerResult { stats: None, violations: vec![], status: None, stderr_tail: String::new() };
            let start = now_secs();
            for line in BufReader::new(out).lines() {
                let line = match line {
                    Ok(l) => l,
                    Err(_) => break,
                };
                if let Some(rest) = line.strip_prefix("V ") {
                    if let Ok(v) = serde_json::from_str::<Violation>(rest) {
                        res.violations.push(v);
                    }
                } else if let Some(rest) = line.strip_prefix("S ") {
                    if let Ok(s) = serde_json::from_str::<Stats>(rest) {
                        res.stats = Some(s);
                    }
                }
                if now_secs() - start > hard_limit {
                    break;
                }
            }
            if now_secs() - start > hard_limit {
                let _ = child.kill();
            }
            res.status = child.wait().ok().and_then(|s| s.code());
            res.stderr_tail = errh.join().unwrap_or_default();
            res
        });
        handles.push(h);
    }
    handles.into_iter().filter_map(|h| h.join().ok()).collect()
}

fn run_child_json(args: &[&str], input: &Value, timeout_secs: f64) -> Result<Value, String> {
    let exe = std::env::current_exe().map_err(|e| e.to_string())?;
    let mut child = Command::new(exe).args(args).stdin(Stdio::piped()).stdout(Stdio::piped()).stderr(Stdio::piped()).spawn().map_err(|e| e.to_string())?;
    {
        let mut si = child.stdin.take().unwrap();
        let _ = si.write_all(serde_json::to_string(input).unwrap().as_bytes());
    }
    let start = now_secs();
    let mut out = child.stdout.take().unwrap();
    let reader = std::thread::spawn(move || {
        let mut s = String::new();
        use std::io::Read;
        let _ = out.read_to_string(&mut s);
        s
    });
    loop {
        match child.try_wait() {
            Ok(Some(_)) => break,
            Ok(None) => {
                if now_secs() - start > timeout_secs {
                    let _ = child.kill();
                    let _ = child.wait();
                    return Err("timeout".to_string());
                }
                std::thread::sleep(std::time::Duration::from_millis(2));
            }
            Err(e) => return Err(e.to_string()),
        }
    }
    let s = reader.join().unwrap_or_default();
    serde_json::from_str(s.trim()).map_err(|e| format!("bad child output: {} ({})", e, s.chars().take(200).collect::<String>()))
}

/// Does `scenario` still violate with class `class`, judged in a fresh process?
fn still_fails(e: &EngineDef, scenario: &Value, class: &str) -> Option<Violation> {
    let r = run_child_json(&["judge-one"], &json!({"engine": e.name, "scenario": scenario}), 120.0).ok()?;
    let v = r.get("violation")?;
    if v.is_null() {
        return None;
    }
    let v: Violation = serde_json::from_value(v.clone()).ok()?;
    if v.class == class {
        Some(v)
    } else {
        None
    }
}

fn minimise(e: &EngineDef, v: &Violation) -> (Violation, u32) {
    let mut best = v.clone();
    let start = now_secs();
    let mut tried = 0u32;
    let par = nworkers().max(1) as usize;
    'outer: loop {
        let cands = (e.shrink)(&best.scenario);
        // candidates are judged in fresh processes, a batch at a time in parallel; the first
        // one (in the shrinker's order) that still shows the same violation class is taken
        for chunk in cands.chunks(par) {
            if tried >= 3000 || now_secs() - start > 180.0 {
                break 'outer;
            }
            tried += chunk.len() as u32;
            let class = best.class.clone();
            let results: Vec<Option<Violation>> = std::thread::scope(|sc| {
                let hs: Vec<_> = chunk.iter().map(|c| { let class = class.clone(); sc.spawn(move || still_fails(e, c, &class)) }).collect();
                hs.into_iter().map(|h| h.join().unwrap_or(None)).collect()
            });
            if let Some(nv) = results.into_iter().flatten().next() {
                best = Violation { seed: v.seed, ..nv };
                continue 'outer;
            }
        }
        break;
    }
    (best, tried)
}

#[derive(Debug, Clone)]
struct KnownEntry {
    property: String,
    class: String,
    sig: String,
    text: String,
}

fn load_known() -> Vec<KnownEntry> {
    let p = verif_dir().join("known_findings.txt");
    let mut out = vec![];
    if let Ok(t) = std::fs::read_to_string(p) {
        for line in t.lines() {
            let line = line.trim();
            // only "known:" lines suppress; "fixed:" lines are a record and suppress nothing
            if let Some(rest) = line.strip_prefix("known:") {
                let mut property = String::new();
                let mut class = String::new();
                let mut sig = String::new();
                let mut text = vec![];
                for tok in rest.split_whitespace() {
                    if let Some(x) = tok.strip_prefix("property=") {
                        property = x.to_string();
                    } else if let Some(x) = tok.strip_prefix("class=") {
                        class = x.to_string();
                    } else if let Some(x) = tok.strip_prefix("sig=") {
                        sig = x.replace('+', " ");
                    } else {
                        text.push(tok);
                    }
                }
                out.push(KnownEntry { property, class, sig, text: text.join(" ") });
            }
        }
    }
    out
}

fn known_match<'a>(known: &'a [KnownEntry], v: &Violation) -> Option<&'a KnownEntry> {
    known.iter().find(|k| k.property == v.property && k.class == v.class && (k.sig.is_empty() || v.signature.contains(&k.sig)))
}

fn write_replay(e: &EngineDef, v: &Violation, tier: &str, minimised: bool, reproduced: &str, idx: usize) -> std::path::PathBuf {
    let dir = std::env::var("VERIF_REPLAYS_DIR").map(std::path::PathBuf::from).unwrap_or_else(|_| verif_dir().join("replays"));
    let _ = std::fs::create_dir_all(&dir);
    let p = dir.join(format!("{}-{}-{}.json", e.property, v.seed, idx));
    let doc = json!({
        "property": v.property, "engine": v.engine, "class": v.class, "signature": v.signature,
        "seed": v.seed, "tier": tier, "minimised": minimised, "reproduced": reproduced,
        "expected": v.expected, "observed": v.observed, "scenario": v.scenario,
    });
    let _ = std::fs::write(&p, serde_json::to_string_pretty(&doc).unwrap());
    p
}

pub fn check(id: &str, tier: &str) -> i32 {
    let e = match engine_for(id) {
        Some(e) => e,
        None => {
            eprintln!("unknown property/engine {}", id);
            return 2;
        }
    };
    if tier != "quick" && tier != "thorough" {
        eprintln!("tier must be quick or thorough");
        return 2;
    }
    let seed: u64 = std::env::var("VERIF_SEED").ok().and_then(|s| s.parse().ok()).unwrap_or(1);
    let n = nworkers();
    let (mut total, mut deadline, selfcheck) = (e.budget)(tier);
    if let Ok(v) = std::env::var("VERIF_RUNS") {
        if let Ok(x) = v.parse() {
            total = x;
        }
    }
    if let Ok(v) = std::env::var("VERIF_DEADLINE") {
        if let Ok(x) = v.parse() {
            deadline = x;
        }
    }
    println!("simharness: property={} engine={} tier={} VERIF_SEED={} workers={} runs<={} ", e.property, e.name, tier, seed, n, total);
    // scratch directories of workers that were killed (their pid no longer exists)
    if let Ok(rd) = std::fs::read_dir(scratch_base()) {
        for ent in rd.flatten() {
            let name = ent.file_name().to_string_lossy().into_owned();
            if let Some(rest) = name.strip_prefix("avra-verif-") {
                if let Some(pid) = rest.rsplit('-').next().and_then(|p| p.parse::<u32>().ok()) {
                    if !std::path::Path::new(&format!("/proc/{}", pid)).exists() {
                        let _ = std::fs::remove_dir_all(ent.path());
                    }
                }
            }
        }
    }
    let t0 = now_secs();
    let mut harness_errors: Vec<String> = vec![];

    // ---- determinism self-check: the same run indices in two process layouts ----------------
    let mut sc_compared = 0u64;
    let mut sc_mismatch = 0u64;
    let mut sc_benign = 0u64;
    let mut sc_violations: Vec<Violation> = vec![];
    if selfcheck > 0 && std::env::var("VERIF_NO_SELFCHECK").is_err() {
        let a = spawn_workers(&e, tier, seed, 1.min(n), selfcheck, deadline, Some(selfcheck));
        let b = spawn_workers(&e, tier, seed, n.min(selfcheck), selfcheck, deadline, Some(selfcheck));
        let mut da: BTreeMap<u64, u64> = BTreeMap::new();
        let mut db: BTreeMap<u64, u64> = BTreeMap::new();
        let mut oa: BTreeMap<u64, u64> = BTreeMap::new();
        let mut ob: BTreeMap<u64, u64> = BTreeMap::new();
        for r in a {
            if let Some(s) = r.stats {
                da.extend(s.digests);
                oa.extend(s.outcome_digests);
                harness_errors.extend(s.harness_errors);
            }
            sc_violations.extend(r.violations);
        }
        for r in b {
            if let Some(s) = r.stats {
                db.extend(s.digests);
                ob.extend(s.outcome_digests);
            }
        }
        for (g, d) in &da {
            if let Some(d2) = db.get(g) {
                sc_compared += 1;
                if d != d2 {
                    // Different event logs for one run index. With different *outcomes* the
                    // simulator does not own a source of nondeterminism that matters: the check
                    // is not trustworthy (exit 2). With equal outcomes the code under test (or a
                    // thread it started itself) varies how it does its work without varying
                    // what comes out: reported, counted, not an error.
                    if oa.get(g) != ob.get(g) {
                        sc_mismatch += 1;
                        if sc_mismatch <= 3 {
                            harness_errors.push(format!("determinism self-check: run index {} produced different results in two process layouts", g));
                        }
                    } else {
                        sc_benign += 1;
                    }
                }
            }
        }
        if sc_compared == 0 {
            harness_errors.push("determinism self-check compared nothing".to_string());
        }
        println!("simharness: determinism self-check: {} runs compared across 1 and {} worker processes, {} mismatches{}", sc_compared, n.min(selfcheck), sc_mismatch, if sc_benign > 0 { format!(" ({} runs with equal results but different event logs: the code under test varies how it works, not what comes out)", sc_benign) } else { String::new() });
    }

    // ---- main batch -------------------------------------------------------------------------
    let results = spawn_workers(&e, tier, seed, n, total, deadline, None);
    let mut stats = Stats::default();
    let mut violations: Vec<Violation> = sc_violations;
    for (w, r) in results.into_iter().enumerate() {
        let had_v = !r.violations.is_empty();
        violations.extend(r.violations);
        match r.stats {
            Some(s) => stats.merge(s),
            None => {
                if !had_v {
                    harness_errors.push(format!("worker {} ended without statistics (status {:?}): {}", w, r.status, r.stderr_tail.chars().rev().take(600).collect::<String>().chars().rev().collect::<String>()));
                }
            }
        }
    }
    harness_errors.extend(stats.harness_errors.clone());

    // ---- violations: de-duplicate, minimise, replay files, known findings -------------------
    let known = load_known();
    let mut by_sig: BTreeMap<String, Violation> = BTreeMap::new();
    for v in violations.iter() {
        by_sig.entry(v.signature.clone()).or_insert_with(|| v.clone());
    }
    let mut new_violations = 0;
    let mut known_seen: Vec<String> = vec![];
    let mut reported = vec![];
    let mut seen_min = std::collections::BTreeSet::new();
    for (idx, (_sig, v)) in by_sig.iter().enumerate() {
        if idx >= std::env::var("VERIF_MAX_REPORT").ok().and_then(|x| x.parse().ok()).unwrap_or(6usize) {
            break;
        }
        let (mv, tried) = minimise(&e, v);
        // two original violations that minimise to the same thing are one finding
        let mkey = mv.signature.clone();
        if !seen_min.insert(mkey) {
            continue;
        }
        // re-run the minimised scenario twice more in fresh processes
        let mut ok = 1;
        for _ in 0..2 {
            if still_fails(&e, &mv.scenario, &mv.class).is_some() {
                ok += 1;
            }
        }
        // if even the original did not reproduce once, say so
        let reproduced = format!("{}/3", ok);
        let path = write_replay(&e, &mv, tier, tried > 0, &reproduced, idx);
        if let Some(k) = known_match(&known, &mv) {
            println!("KNOWN-FINDING: property={} {} [{}] replay={}", e.property, k.text, mv.signature, path.display());
            known_seen.push(k.text.clone());
        } else {
            new_violations += 1;
            println!("VIOLATION property={} replay={}", e.property, path.display());
            println!("  class: {}\n  signature: {}\n  expected: {}\n  observed: {}\n  reproduced: {} (minimisation tried {} candidates)", mv.class, mv.signature, mv.expected, serde_json::to_string(&mv.observed).unwrap().chars().take(600).collect::<String>(), reproduced, tried);
        }
        reported.push(json!({"class": mv.class, "signature": mv.signature, "replay": path.display().to_string(), "reproduced": reproduced}));
    }

    // ---- evidence ---------------------------------------------------------------------------
    let wall = now_secs() - t0;
    for w in stats.warnings.iter().take(5) {
        println!("simharness: warning: {}", w);
    }
    let zero_probes: Vec<String> = stats.probes.iter().filter(|(_, v)| **v == 0).map(|(k, _)| k.clone()).collect();
    for p in &zero_probes {
        println!("simharness: warning: probe '{}' was never hit in this run", p);
    }
    let evidence = json!({
        "property_id": e.property,
        "tier": tier,
        "seed": seed,
        "level": e.level,
        "wall_s": (wall * 100.0).round() / 100.0,
        "violations": new_violations,
        "assumptions": e.assumptions,
        "coverage": {
            "evaluations": stats.runs,
            "distinct_nontrivial": stats.distinct_nontrivial.len(),
            "rule": e.rule,
            "samples": stats.samples,
            "exhaustive": false,
            "runs": stats.runs,
            "runs_per_hour": if wall > 0.0 { (stats.runs as f64 / wall * 3600.0).round() } else { 0.0 },
            "seeds": {"VERIF_SEED": seed, "first_run_seed": stats.first_seed, "last_run_seed": stats.last_seed, "derivation": "run seed = mix(VERIF_SEED, engine tag, global run index)"},
            "logical_steps": stats.steps,
            "simulated_time": "the code under test reads no clock: simulated time is the number of intercepted calls and hook yields (logical_steps)",
            "fault_kinds_fired": stats.fault_kinds_fired,
            "runs_with_fired_fault": stats.runs_with_fired_fault,
            "fault_free_runs": stats.fault_free_runs,
            "panics_under_hard_fault_not_judged": stats.panics_under_fault,
            "probes": stats.probes,
            "probes_never_hit": zero_probes,
            "distinct_states": stats.distinct_states.len(),
            "counters": stats.counters,
            "determinism_selfcheck": {"runs_compared": sc_compared, "mismatches": sc_mismatch, "equal_results_but_different_event_logs": sc_benign, "layouts": format!("1 process vs {} processes", n.min(selfcheck.max(1)))},
            "components": {"real": e.real, "simulated": e.simulated, "stubbed": []},
            "known_findings_seen": known_seen,
            "violations_reported": reported,
            "excluded": stats.excluded,
            "workers": n,
            "harness_errors": harness_errors,
            "warnings": stats.warnings,
        }
    });
    let evdir = std::env::var("VERIF_EVIDENCE_DIR").map(std::path::PathBuf::from).unwrap_or_else(|_| verif_dir().join("evidence"));
    let _ = std::fs::create_dir_all(&evdir);
    let evp = evdir.join(format!("{}.json", e.property));
    if let Err(err) = std::fs::write(&evp, serde_json::to_string_pretty(&evidence).unwrap()) {
        eprintln!("cannot write evidence: {}", err);
        return 2;
    }
    println!(
        "simharness: {} runs ({} fault-free, {} with a fired fault), {} distinct non-trivial, {} logical steps, {:.1}s; evidence {}",
        stats.runs,
        stats.fault_free_runs,
        stats.runs_with_fired_fault,
        stats.distinct_nontrivial.len(),
        stats.steps,
        wall,
        evp.display()
    );
    if new_violations > 0 {
        return 1;
    }
    if !harness_errors.is_empty() {
        for h in harness_errors.iter().take(10) {
            eprintln!("HARNESS-ERROR: {}", h);
        }
        return 2;
    }
    if stats.runs == 0 {
        eprintln!("HARNESS-ERROR: no runs were executed");
        return 2;
    }
    0
}

pub fn replay_file(path: &str) -> i32 {
    silence_panics();
    let text = match std::fs::read_to_string(path) {
        Ok(t) => t,
        Err(e) => {
            eprintln!("cannot read {}: {}", path, e);
            return 2;
        }
    };
    let doc: Value = match serde_json::from_str(&text) {
        Ok(v) => v,
        Err(e) => {
            eprintln!("bad replay file: {}", e);
            return 2;
        }
    };
    let en = doc["engine"].as_str().unwrap_or("");
    let e = match engine_for(en) {
        Some(e) => e,
        None => {
            eprintln!("replay file names unknown engine {}", en);
            return 2;
        }
    };
    let class = doc["class"].as_str().unwrap_or("").to_string();
    match (e.replay)(&doc["scenario"]) {
        Ok(Some(v)) => {
            let known = load_known();
            let same = v.class == class;
            if let Some(k) = known_match(&known, &v) {
                println!("KNOWN-FINDING: property={} {} [{}]", e.property, k.text, v.signature);
                return 0;
            }
            println!("VIOLATION property={} replay={}", e.property, path);
            println!("  class: {}{}\n  expected: {}\n  observed: {}", v.class, if same { " (same as recorded)" } else { " (DIFFERENT from the recorded class)" }, v.expected, serde_json::to_string_pretty(&v.observed).unwrap());
            1
        }
        Ok(None) => {
            println!("replay: no violation (the property holds on this scenario)");
            0
        }
        Err(err) => {
            eprintln!("HARNESS-ERROR: {}", err);
            2
        }
    }
}
