#!/usr/bin/env python3
"""Assemble /verif/seeded/<id>/ from the sub-agents' deliverables, the confirmation log and the
detection log. Usage: build_seeded.py <mut-root> <confirm.jsonl> <detect.jsonl>"""
import json, os, shutil, sys, re
root, confirm, detect = sys.argv[1:4]
conf = {json.loads(l)['dir']: json.loads(l) for l in open(confirm)}
det = {}
for l in open(detect):
    d = json.loads(l); det.setdefault(d['dir'], []).append(d)
out = '/verif/seeded'
os.makedirs(out, exist_ok=True)
index = []
for a in sorted(os.listdir(root)):
    m = re.match(r'^(C\d\d)-([a-z])$', a)
    if not m: continue
    for k in ['1', '2', '3']:
        d = f'{root}/{a}/_out/{k}'
        if not os.path.exists(f'{d}/patch.diff'): continue
        c = conf.get(d)
        if not c or not c.get('applies') or '67 passed' not in c.get('suite', '') or c['demo_exit_with_change'] == 0 or c['demo_exit_without_change'] != 0:
            continue  # not confirmed: not kept
        sid = f'{m.group(1)}-{m.group(2)}{k}'
        dst = f'{out}/{sid}'
        os.makedirs(dst, exist_ok=True)
        shutil.copy(f'{d}/patch.diff', dst)
        demo = 'demo.rs' if os.path.exists(f'{d}/demo.rs') else 'demo.sh'
        shutil.copy(f'{d}/{demo}', dst)
        notes = open(f'{d}/NOTES.md').read() if os.path.exists(f'{d}/NOTES.md') else ''
        open(f'{dst}/NOTES.md', 'w').write(notes)
        title = next((l.strip('# ').strip() for l in notes.splitlines() if l.strip()), '')
        needs = ''
        mm = re.search(r'(?is)(needs to manifest|what is needed|manifest[s]?( only)?( when)?)[:\s](.{20,600}?)(\n\n|\Z)', notes)
        if mm: needs = ' '.join(mm.group(0).split())[:700]
        dets = det.get(d, [])
        if not dets and os.path.exists(f'{dst}/meta.json'):
            old = json.load(open(f'{dst}/meta.json')).get('detection', [])
            dets = [{'check': x['check'], 'rc': x['exit'], 'signatures': ';'.join(x['violation_signatures']), 'false_alarm_replays': x['replays_of_its_violations_that_fail_on_the_unchanged_tree'], 'runs': x['runs_before_stop']} for x in old]
        meta = {
            'id': sid, 'property': m.group(1), 'title': title,
            'needs_to_manifest': needs or 'see NOTES.md',
            'author': 'independent sub-agent given only the property text and its own scratch worktree of /repo at b4c0a10',
            'confirmed_in_scratch_worktree': {
                'what_i_ran': 'tools/confirm_mutant.sh: git apply patch.diff in /tmp/wt-confirm; cargo test --workspace --no-fail-fast --offline; the demonstration with the change; git checkout; the demonstration without the change',
                'patch_applies': True, 'existing_suite': c['suite'],
                'demo': demo, 'demo_exit_with_change': c['demo_exit_with_change'], 'demo_exit_without_change': c['demo_exit_without_change'],
            },
            'detection': [{'check': x['check'], 'tier': 'quick', 'exit': x['rc'], 'violation_signatures': [s for s in x['signatures'].split(';') if s], 'replays_of_its_violations_that_fail_on_the_unchanged_tree': x['false_alarm_replays'], 'runs_before_stop': x['runs']} for x in dets],
            'how_to_rerun': f'tools/try_mutant.sh /verif/seeded/{sid}/patch.diff {m.group(1)} quick',
        }
        json.dump(meta, open(f'{dst}/meta.json', 'w'), indent=1)
        index.append((sid, m.group(1), title, [(x['check'], x['rc']) for x in dets]))
index = []
for sid in sorted(os.listdir(out)):
    mp = f'{out}/{sid}/meta.json'
    if os.path.exists(mp):
        mt = json.load(open(mp))
        index.append((sid, mt['property'], mt['title'], [(x['check'], x['exit']) for x in mt['detection']]))
with open(f'{out}/INDEX.md', 'w') as f:
    f.write('# Seeded property-breaking changes\n\nEach directory: patch.diff (against /repo at b4c0a10), the demonstration, the author\'s notes, meta.json.\nNone of these is ever committed to /repo. Re-run one with `tools/try_mutant.sh seeded/<id>/patch.diff <ID> quick`.\n\n| id | property | change | detected by (quick) |\n|---|---|---|---|\n')
    for sid, p, t, ds in index:
        f.write(f'| {sid} | {p} | {t[:110]} | {", ".join(c for c, rc in ds if rc == 1) or "-"} |\n')
print(len(index), 'in index')
