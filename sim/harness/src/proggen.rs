//! Seeded generator of assembler programs for the engines inctree, multibuild and cli.
//!
//! The oracles that use these programs are relational (tree vs. flat text, in-history vs. alone,
//! binary vs. library), so the generator does not need to know what a program assembles to; it
//! only has to produce programs that (a) mostly build, (b) fail in a chosen way when asked to,
//! and (c) use names from a small shared pool, so that state leaking between builds or across a
//! file boundary changes the outcome. Generator hygiene: DESIGN.md appendix A.

use crate::rng::Rng;

#[derive(Clone, Debug)]
pub enum Node {
    /// plain lines (no conditional or macro structure crosses the node boundary)
    Lines(Vec<String>),
    /// a balanced conditional: head, then-branch, optional (".else" | ".elif e", branch), ".endif"
    Cond { head: String, then: Vec<Node>, els: Option<(String, Vec<Node>)> },
    /// a macro definition, atomic
    Macro(Vec<String>),
}

#[derive(Clone, Debug)]
pub struct Program {
    pub nodes: Vec<Node>,
    /// what the generator intended ("ok" or the failure kind); informational
    pub intent: String,
}

pub fn flatten_nodes(nodes: &[Node], out: &mut Vec<String>) {
    for n in nodes {
        match n {
            Node::Lines(l) => out.extend(l.iter().cloned()),
            Node::Macro(l) => out.extend(l.iter().cloned()),
            Node::Cond { head, then, els } => {
                out.push(head.clone());
                flatten_nodes(then, out);
                if let Some((e, b)) = els {
                    out.push(e.clone());
                    flatten_nodes(b, out);
                }
                out.push(".endif".to_string());
            }
        }
    }
}

impl Program {
    pub fn lines(&self) -> Vec<String> {
        let mut v = vec![];
        flatten_nodes(&self.nodes, &mut v);
        v
    }
    pub fn text(&self) -> String {
        let mut s = self.lines().join("\n");
        s.push('\n');
        s
    }
}

pub const OPTIONS_LINE: &str = "; options";

pub const FAIL_KINDS: &[&str] = &[
    "undef-symbol",
    "dup-label",
    "error-directive",
    "unknown-device",
    "second-device",
    "device-forbids-op",
    "flash-overflow",
    "ram-overflow",
    "eeprom-overflow",
    "db-in-dseg",
    "instr-in-dseg",
    "if-undefined",
    "undef-macro",
    "parse-error",
    "branch-range",
    "byte-range",
    "undef-def",
    "macro-case-only",
    "undef-deep",
    "error-in-macro",
    "pc-at-parse-time",
    "include-in-macro",
    "label-twice-in-macro",
    "unsupported-directive",
    "errors-in-two-memories",
    "avra-macro-local-label",
    "broken-unused-macros",
    "error-in-nested-macro",
    "undef-macro-in-macro",
    "avrasm2-time-symbols",
];

/// Devices used by generated programs: (name, forbids mul, forbids jmp, avr8l, flash words, ram, eeprom)
pub const DEVICES: &[(&str, bool, bool, bool, u32, u32, u32)] = &[
    ("ATtiny13", true, true, false, 512, 64, 64),
    ("ATtiny2313", true, true, false, 1024, 128, 128),
    ("ATtiny20", true, true, true, 2048, 128, 0),
    ("ATmega8", false, true, false, 4096, 1024, 512),
    ("ATmega48", false, false, false, 2048, 512, 256),
    ("ATmega328P", false, false, false, 16384, 2048, 1024),
    ("ATmega103", true, false, false, 65536, 4096, 4096),
    ("ATmega1280", false, false, false, 65536, 8192, 4096),
    ("ATmega2560", false, false, false, 262144, 8192, 4096),
];

/// A family's name pool: programs of one family draw from the same few names, so they collide.
#[derive(Clone, Debug)]
pub struct Pool {
    pub tag: String,
    pub labels: Vec<String>,
    pub equs: Vec<String>,
    pub sets: Vec<String>,
    pub defs: Vec<String>,
    pub defines: Vec<String>,
    pub macros: Vec<String>,
}

impl Pool {
    pub fn new(r: &mut Rng) -> Pool {
        let tag = format!("{}", (b'a' + r.below(17) as u8) as char);
        let mk = |p: &str, n: usize| -> Vec<String> { (0..n).map(|i| format!("{}{}_{}", p, tag, i)).collect() };
        Pool { labels: mk("l", 7), equs: mk("k", 5), sets: mk("s", 3), defs: mk("d", 5), defines: mk("F", 4), macros: mk("m", 3), tag }
    }
}

#[derive(Clone, Debug)]
pub struct GenOpts {
    pub min_blocks: usize,
    pub max_blocks: usize,
    pub fail: Option<String>,
    /// probability (in 1/8) that a .device line is emitted
    pub device_eighths: u64,
    pub messages: bool,
    /// many macro definitions and calls, with compound arguments
    pub macro_heavy: bool,
    /// unique tag used in message texts so that messages identify their program
    pub msg_tag: String,
}

impl Default for GenOpts {
    fn default() -> Self {
        GenOpts { min_blocks: 6, max_blocks: 18, fail: None, device_eighths: 4, messages: true, macro_heavy: false, msg_tag: "p".into() }
    }
}

struct Gen<'a> {
    r: &'a mut Rng,
    pool: &'a Pool,
    opts: &'a GenOpts,
    // names defined so far (textual order)
    labels_planned: Vec<String>,
    labels_emitted: Vec<(String, usize)>, // (name, region)
    equs: Vec<String>,
    /// equs whose expression is constant at parse time (usable in .if)
    equs_pure: Vec<String>,
    no_alias: bool,
    sets: Vec<String>,
    defs: Vec<(String, u32)>,
    defines: Vec<String>,
    macros: Vec<(String, usize)>, // (name, nparams)
    /// macros whose body defines a label: they can be called once (a second expansion would
    /// define the label again), and those already called
    once_macros: Vec<String>,
    once_called: Vec<String>,
    device: Option<usize>,
    region: usize,
    seg: u8, // 0 code 1 data 2 eeprom
    msg_n: usize,
    words_upper: u32,
    ram_bytes: u32,
    eep_bytes: u32,
    uniq: usize,
}

fn mixed_case(r: &mut Rng, s: &str) -> String {
    // case-insensitive namespaces are referenced in another case now and then
    match r.below(6) {
        0 => s.to_uppercase(),
        1 => {
            let mut c = s.chars();
            match c.next() {
                Some(f) => f.to_uppercase().collect::<String>() + c.as_str(),
                None => String::new(),
            }
        }
        _ => s.to_string(),
    }
}

impl<'a> Gen<'a> {
    fn hi_reg(&mut self) -> String {
        // a high register, sometimes through a .def alias
        if !self.no_alias && !self.defs.is_empty() && self.r.chance(1, 3) {
            let (n, _) = self.defs[self.r.usize(self.defs.len())].clone();
            return mixed_case(self.r, &n);
        }
        format!("r{}", self.r.range(16, 31))
    }
    fn any_reg(&mut self) -> String {
        let up = self.r.chance(1, 8);
        format!("{}{}", if up { "R" } else { "r" }, self.r.range(0, 31))
    }
    fn num(&mut self, max: u64) -> String {
        let v = self.r.below(max + 1);
        match self.r.below(6) {
            0 => format!("0x{:x}", v),
            1 => format!("${:X}", v),
            2 => format!("0b{:b}", v),
            3 if v >= 8 => format!("0{:o}", v),
            _ => format!("{}", v),
        }
    }
    /// an expression with a value that is whatever it is; wrapped by the caller to fit
    fn expr(&mut self, depth: u32, parse_time: bool) -> String {
        let leaf = depth == 0 || self.r.chance(2, 5);
        if leaf {
            let c = self.r.below(10);
            if c < 3 && parse_time && !self.equs_pure.is_empty() {
                let n = self.equs_pure[self.r.usize(self.equs_pure.len())].clone();
                return mixed_case(self.r, &n);
            }
            if c < 3 && !parse_time && !self.equs.is_empty() {
                let n = self.equs[self.r.usize(self.equs.len())].clone();
                return mixed_case(self.r, &n);
            }
            if c < 5 && !parse_time && !self.labels_planned.is_empty() {
                let n = self.labels_planned[self.r.usize(self.labels_planned.len())].clone();
                return mixed_case(self.r, &n);
            }
            if c == 5 && !parse_time && !self.sets.is_empty() {
                return self.sets[self.r.usize(self.sets.len())].clone();
            }
            if c == 6 {
                let ch = [b'a', b'Z', b'0', b'#', b' ', b'q'][self.r.usize(6)] as char;
                return format!("'{}'", ch);
            }
            if c == 7 && !parse_time && self.seg == 0 {
                return "pc".to_string();
            }
            return self.num(300);
        }
        let a = self.expr(depth - 1, parse_time);
        let b = self.expr(depth - 1, parse_time);
        match self.r.below(16) {
            0 => format!("({} + {})", a, b),
            1 => format!("({} - {})", a, b),
            2 => format!("({}) * {}", a, self.r.range(1, 5)),
            3 => format!("({} & {})", a, b),
            4 => format!("({} | {})", a, b),
            5 => format!("({} ^ {})", a, b),
            6 => format!("({} << {})", a, self.r.range(0, 7)),
            7 => format!("({} >> {})", a, self.r.range(0, 7)),
            8 => format!("({} < {})", a, b),
            9 => format!("({} == {})", a, b),
            10 => format!("({} >= {})", a, b),
            11 => format!("(({}) && ({}))", a, b),
            12 => format!("(({}) || ({}))", a, b),
            13 => format!("(-({}))", a),
            14 => format!("(!({}))", a),
            _ => format!("({} / {})", a, self.r.range(1, 9)),
        }
    }
    fn byte_expr(&mut self) -> String {
        let e = self.expr(2, false);
        match self.r.below(12) {
            0 => format!("low(exp2({}))", self.r.below(8)),
            1 => format!("log2({})", e),
            2 => format!("page({})", e),
            3 => format!("byte4({})", e),
            _ => {
                let f = ["low", "high", "byte2", "LOW", "byte3"][self.r.usize(5)];
                format!("{}({})", f, e)
            }
        }
    }
    fn word_expr(&mut self) -> String {
        let e = self.expr(2, false);
        let f = ["lwrd", "hwrd", "low"][self.r.usize(3)];
        format!("{}({})", f, e)
    }
    fn near_label(&mut self) -> Option<String> {
        // a label in the current region, emitted in one of the last few blocks or planned next
        let here: Vec<String> = self.labels_emitted.iter().rev().take(3).filter(|(_, reg)| *reg == self.region).map(|(n, _)| n.clone()).collect();
        if here.is_empty() {
            None
        } else {
            let n = here[self.r.usize(here.len())].clone();
            Some(mixed_case(self.r, &n))
        }
    }
    fn comment(&mut self) -> String {
        match self.r.below(9) {
            0 => " ; note".to_string(),
            1 => "\t// c++ style".to_string(),
            2 => " /* block */".to_string(),
            _ => String::new(),
        }
    }
    fn instr(&mut self) -> String {
        let ind = if self.r.chance(1, 5) { "\t" } else { "    " };
        let mul_ok = self.device.map(|d| !DEVICES[d].1).unwrap_or(true);
        let jmp_ok = self.device.map(|d| !DEVICES[d].2).unwrap_or(true);
        let body = loop {
            match self.r.below(30) {
                0 => break "nop".to_string(),
                1 | 2 => break format!("ldi {}, {}", self.hi_reg(), self.byte_expr()),
                3 => break format!("mov {}, {}", self.any_reg(), self.any_reg()),
                4 => break format!("add {}, {}", self.any_reg(), self.any_reg()),
                5 => break format!("subi {}, {}", self.hi_reg(), self.num(255)),
                6 => break format!("andi {}, {}", self.hi_reg(), self.byte_expr()),
                7 => break format!("inc {}", self.any_reg()),
                8 => break format!("push {}", self.any_reg()),
                9 => break format!("pop {}", self.any_reg()),
                10 => break format!("eor {}, {}", self.any_reg(), self.any_reg()),
                11 => break format!("cpi {}, {}", self.hi_reg(), self.num(255)),
                12 => {
                    if let Some(l) = self.near_label() {
                        let b = ["breq", "brne", "brcs", "brcc", "brlo", "brsh", "brmi", "brpl", "brge", "brlt"][self.r.usize(10)];
                        break format!("{} {}", b, l);
                    }
                }
                13 => {
                    if let Some(l) = self.near_label() {
                        break format!("rjmp {}", l);
                    }
                }
                14 => {
                    if let Some(l) = self.near_label() {
                        break format!("rcall {}", l);
                    }
                }
                15 => break format!("out {}, {}", self.num(63), self.any_reg()),
                16 => break format!("in {}, {}", self.any_reg(), self.num(63)),
                17 => break format!("sbi {}, {}", self.num(31), self.num(7)),
                18 => break format!("sbrc {}, {}", self.any_reg(), self.num(7)),
                19 => break ["sei", "cli", "sec", "clc", "ret", "reti", "sleep", "wdr", "set", "clt"][self.r.usize(10)].to_string(),
                20 => {
                    let avr8l = self.device.map(|d| DEVICES[d].3).unwrap_or(false);
                    let a = if avr8l { format!("{}", self.r.range(0x40, 0xbf)) } else { self.word_expr() };
                    if self.r.chance(1, 2) {
                        break format!("lds {}, {}", self.any_reg(), a);
                    } else {
                        break format!("sts {}, {}", a, self.any_reg());
                    }
                }
                21 => {
                    if mul_ok && self.r.chance(1, 2) {
                        break format!("mul {}, {}", self.any_reg(), self.any_reg());
                    }
                }
                22 => {
                    if jmp_ok && self.r.chance(1, 2) && !self.labels_planned.is_empty() {
                        let n = self.labels_planned[self.r.usize(self.labels_planned.len())].clone();
                        break format!("{} {}", if self.r.chance(1, 2) { "jmp" } else { "call" }, n);
                    }
                }
                23 => break format!("ldi {}, low({})", self.hi_reg(), self.expr(1, false)),
                24 => break format!("tst {}", self.any_reg()),
                25 => break format!("lsl {}", self.any_reg()),
                26 => break format!("swap {}", self.any_reg()),
                27 => break format!("com {}", self.any_reg()),
                28 => break format!("sbci {}, {}", self.hi_reg(), self.num(255)),
                _ => break format!("ori {}, {}", self.hi_reg(), self.byte_expr()),
            }
        };
        self.words_upper += 2;
        // mnemonics are case-insensitive
        let body = if self.r.chance(1, 10) {
            let mut it = body.splitn(2, ' ');
            let m = it.next().unwrap().to_uppercase();
            match it.next() {
                Some(rest) => format!("{} {}", m, rest),
                None => m,
            }
        } else {
            body
        };
        format!("{}{}{}", ind, body, self.comment())
    }
    fn new_label(&mut self) -> Option<String> {
        // the next pool label not yet emitted
        let used: Vec<&String> = self.labels_emitted.iter().map(|(n, _)| n).collect();
        let free: Vec<String> = self.pool.labels.iter().filter(|l| !used.contains(l)).cloned().collect();
        if free.is_empty() {
            self.uniq += 1;
            return Some(format!("u{}_{}", self.pool.tag, self.uniq));
        }
        Some(free[0].clone())
    }
    fn msg(&mut self, kind: &str) -> String {
        self.msg_n += 1;
        format!(".{} \"{}{}\"", kind, self.opts.msg_tag, self.msg_n)
    }

    fn code_block(&mut self) -> Node {
        let mut l = vec![];
        if self.r.chance(1, 2) {
            if let Some(n) = self.new_label() {
                self.labels_emitted.push((n.clone(), self.region));
                let shown = mixed_case(self.r, &n);
                if self.r.chance(1, 3) {
                    let i = self.instr();
                    l.push(format!("{}:{}", shown, i));
                } else {
                    l.push(format!("{}:", shown));
                }
            }
        }
        for _ in 0..self.r.range(1, 4) {
            l.push(self.instr());
        }
        Node::Lines(l)
    }
    fn data_block(&mut self) -> Node {
        let mut l = vec![];
        if self.r.chance(1, 2) {
            if let Some(n) = self.new_label() {
                self.labels_emitted.push((n.clone(), self.region));
                l.push(format!("{}:", n));
            }
        }
        match self.r.below(5) {
            0 => {
                let s = ["Hello", "ab", "x", "data;1", "A,B", "", "C:\\tmp\\x", "tab\\t", "50% \\ 2", "it's", "a;b\\c"][self.r.usize(11)];
                l.push(format!(".db \"{}\", {}", s, self.num(255)));
                self.words_upper += 5;
            }
            1 => {
                let n = self.r.range(1, 5);
                let v: Vec<String> = (0..n).map(|_| self.byte_expr()).collect();
                l.push(format!(".db {}", v.join(", ")));
                self.words_upper += 3;
            }
            2 => {
                let n = self.r.range(1, 3);
                let v: Vec<String> = (0..n).map(|_| self.word_expr()).collect();
                l.push(format!(".dw {}", v.join(",")));
                self.words_upper += 3;
            }
            3 => {
                l.push(format!(".dd {}, {}", self.num(300), self.expr(1, false)));
                self.words_upper += 4;
            }
            _ => {
                l.push(format!(".dq {}", self.expr(2, false)));
                self.words_upper += 4;
            }
        }
        Node::Lines(l)
    }
    fn equ_block(&mut self) -> Node {
        let free: Vec<String> = self.pool.equs.iter().filter(|e| !self.equs.contains(e)).cloned().collect();
        if free.is_empty() {
            return self.code_block();
        }
        let n = free[self.r.usize(free.len())].clone();
        let pure = self.r.chance(1, 2);
        let e = self.expr(2, pure);
        self.equs.push(n.clone());
        if pure {
            self.equs_pure.push(n.clone());
        }
        let d = ".equ"; // directive names are lower-case only in this grammar
        Node::Lines(vec![format!("{} {} = {}", d, mixed_case(self.r, &n), e)])
    }
    fn set_block(&mut self) -> Node {
        let n = self.pool.sets[self.r.usize(self.pool.sets.len())].clone();
        // a .set may only use what pass 2 has seen before it: earlier sets are fine
        let e = self.expr(1, false);
        if !self.sets.contains(&n) {
            self.sets.push(n.clone());
        }
        Node::Lines(vec![format!(".set {} = {}", n, e)])
    }
    fn def_block(&mut self) -> Node {
        let free: Vec<String> = self.pool.defs.iter().filter(|d| !self.defs.iter().any(|(n, _)| n == *d)).cloned().collect();
        if free.is_empty() || (!self.defs.is_empty() && self.r.chance(1, 3)) {
            if !self.defs.is_empty() {
                let i = self.r.usize(self.defs.len());
                let (n, _) = self.defs.remove(i);
                return Node::Lines(vec![format!(".undef {}", n)]);
            }
            return self.code_block();
        }
        // one to three aliases at once; now and then a register that already has an alias (or
        // two) gets another one
        let mut lines = vec![];
        let count = (self.r.range(1, 3) as usize).min(free.len());
        for n in free.into_iter().take(count) {
            let reg = if !self.defs.is_empty() && self.r.chance(1, 2) { self.defs[self.defs.len() - 1].1 } else { self.r.range(16, 31) as u32 };
            self.defs.push((n.clone(), reg));
            lines.push(format!(".def {} = r{}", n, reg));
        }
        Node::Lines(lines)
    }
    fn define_block(&mut self) -> Node {
        let n = self.pool.defines[self.r.usize(self.pool.defines.len())].clone();
        if !self.defines.contains(&n) {
            self.defines.push(n.clone());
        }
        let form = if self.r.chance(1, 2) { "#define" } else { ".define" };
        Node::Lines(vec![format!("{} {}", form, n)])
    }
    fn branch_body(&mut self, label: &Option<String>, depth: u32) -> Vec<Node> {
        // both branches of a conditional define the same label (exactly one is taken)
        let mut v = vec![];
        let mut l = vec![];
        if let Some(n) = label {
            l.push(format!("{}:", n));
        }
        for _ in 0..self.r.range(1, 3) {
            l.push(self.instr());
        }
        if self.opts.messages && self.r.chance(1, 3) {
            l.push(self.msg("message"));
        }
        v.push(Node::Lines(l));
        if depth > 0 && self.r.chance(1, 3) {
            v.push(self.cond_block(depth - 1, false));
        }
        if self.r.chance(1, 3) {
            v.push(Node::Lines(vec![self.instr()]));
        }
        v
    }
    fn cond_block(&mut self, depth: u32, may_define: bool) -> Node {
        let head = match self.r.below(4) {
            0 => format!(".ifdef {}", self.pool.defines[self.r.usize(self.pool.defines.len())]),
            1 => format!(".ifndef {}", self.pool.defines[self.r.usize(self.pool.defines.len())]),
            2 => format!("#ifdef {}", self.pool.defines[self.r.usize(self.pool.defines.len())]),
            _ => format!(".if {}", self.expr(1, true)),
        };
        let label = if may_define && self.r.chance(1, 2) { self.new_label() } else { None };
        if let Some(n) = &label {
            self.labels_emitted.push((n.clone(), self.region));
        }
        let then = self.branch_body(&label, depth);
        let els = if label.is_some() {
            Some((".else".to_string(), self.branch_body(&label, depth)))
        } else if self.r.chance(1, 2) {
            let e = if self.r.chance(1, 3) { format!(".elif {}", self.expr(1, true)) } else { ".else".to_string() };
            Some((e, self.branch_body(&None, depth)))
        } else {
            None
        };
        Node::Cond { head, then, els }
    }
    fn macro_def(&mut self) -> Node {
        let free: Vec<String> = self.pool.macros.iter().filter(|m| !self.macros.iter().any(|(n, _)| n == *m)).cloned().collect();
        if free.is_empty() {
            return self.code_block();
        }
        let n = free[0].clone();
        let np = if self.opts.macro_heavy { 2 } else { self.r.usize(3) };
        // now and then a macro with twelve parameters (`@1` is a prefix of `@10` and `@11`)
        let np = if self.r.chance(1, 12) { 12 } else { np };
        let mut l = vec![format!(".macro {}", n)];
        if np == 12 {
            l.push("    ldi @0, low(@10+@11)".to_string());
            l.push("    subi @0, @1".to_string());
            l.push("    cpi @0, @2*@9".to_string());
        }
        self.no_alias = true;
        for _ in 0..self.r.range(1, 3) {
            match (np, self.r.below(4)) {
                (0, _) => l.push(self.instr()),
                (_, 0) => l.push("    ldi @0, 7".to_string()),
                (2, 1) => l.push(["    subi @0, @1", "    subi @0, @1*2", "    andi @0, @1+1"][self.r.usize(3)].to_string()),
                (2, 2) => l.push(["    cpi @0, low(@1)", "    cpi @0, low(@1*3)", "    ldi @0, low(@1<<1)"][self.r.usize(3)].to_string()),
                _ => l.push("    mov r2, @0".to_string()),
            }
        }
        if self.opts.messages && self.r.chance(1, 3) {
            l.push(self.msg("message"));
        }
        // a label inside the body (a loop), named in a message of the body now and then: what
        // the label is called is visible to the user (messages, error texts)
        if self.r.chance(1, 4) {
            let lab = format!("ml{}_{}", self.pool.tag, self.uniq);
            self.uniq += 1;
            l.insert(1, format!("{}:", lab));
            l.push(format!("    brne {}", lab));
            if self.opts.messages && self.r.chance(1, 2) {
                l.push(format!(".message \"{}{} loops at {}\"", self.opts.msg_tag, n, lab));
            }
            self.once_macros.push(n.clone());
        }
        // the expansion depends on facts of the build it is expanded in: a define, the value of
        // a (parse-time constant) .equ
        match self.r.below(6) {
            0 | 1 => {
                l.push(format!(".ifdef {}", self.pool.defines[self.r.usize(self.pool.defines.len())]));
                l.push("    nop".to_string());
                l.push(".else".to_string());
                l.push("    inc r7".to_string());
                l.push("    dec r7".to_string());
                l.push(".endif".to_string());
            }
            2 if !self.equs_pure.is_empty() => {
                let k = self.equs_pure[self.r.usize(self.equs_pure.len())].clone();
                l.push(format!(".if {} > {}", k, self.r.below(120)));
                l.push("    swap r9".to_string());
                l.push(".else".to_string());
                l.push(format!("    ldi r24, low({})", k));
                l.push("    nop".to_string());
                l.push(".endif".to_string());
            }
            _ => {}
        }
        l.push(if self.r.chance(1, 2) { ".endm".to_string() } else { ".endmacro".to_string() });
        self.no_alias = false;
        self.macros.push((n, np));
        Node::Macro(l)
    }
    fn macro_call(&mut self) -> Node {
        if self.macros.is_empty() {
            return self.code_block();
        }
        let (n, np) = self.macros[self.r.usize(self.macros.len())].clone();
        if self.once_macros.contains(&n) {
            if self.once_called.contains(&n) {
                return self.code_block();
            }
            self.once_called.push(n.clone());
        }
        self.words_upper += 8;
        let line = match np {
            12 => format!("    {} r{}, {}", n, self.r.range(16, 31), (0..11).map(|_| self.num(15)).collect::<Vec<_>>().join(", ")),
            0 => format!("    {}", n),
            1 => format!("    {} r{}", n, self.r.range(16, 31)),
            // the second argument is re-rendered as text when the body is expanded: plain
            // numbers, and compound expressions whose rendering has to keep their meaning
            _ => {
                let arg = match self.r.below(5) {
                    0 => format!("({}+{})*{}", self.r.below(9), self.r.below(9), self.r.range(1, 4)),
                    1 => format!("{}-({}-{})", self.r.range(20, 60), self.r.below(9), self.r.below(9)),
                    2 => format!("({}|{})&{}", self.r.below(16), self.r.below(16), self.r.below(32)),
                    _ => self.num(200),
                };
                format!("    {} r{}, {}", n, self.r.range(16, 31), arg)
            }
        };
        Node::Lines(vec![line])
    }
    fn dseg_block(&mut self) -> Node {
        let mut l = vec![".dseg".to_string()];
        self.seg = 1;
        for _ in 0..self.r.range(1, 2) {
            if let Some(n) = self.new_label() {
                self.labels_emitted.push((n.clone(), usize::MAX));
                let sz = self.r.range(1, 6) as u32;
                self.ram_bytes += sz;
                l.push(format!("{}: .byte {}", n, sz));
            }
        }
        self.state_lines_in_another_memory(&mut l);
        l.push(".cseg".to_string());
        self.seg = 0;
        Node::Lines(l)
    }
    /// Now and then a register alias or a `.set` is written while the data or EEPROM segment is
    /// open and used by code further down: pass 2 has to meet the lines of all memories in the
    /// order they were written.
    fn state_lines_in_another_memory(&mut self, l: &mut Vec<String>) {
        if !self.r.chance(1, 3) {
            return;
        }
        let n = if self.r.chance(1, 2) { self.def_block() } else { self.set_block() };
        if let Node::Lines(x) = n {
            if x.iter().all(|t| t.starts_with(".def ") || t.starts_with(".undef ") || t.starts_with(".set ")) {
                l.extend(x);
            }
        }
    }
    fn eseg_block(&mut self) -> Node {
        let mut l = vec![".eseg".to_string()];
        self.seg = 2;
        if let Some(n) = self.new_label() {
            self.labels_emitted.push((n.clone(), usize::MAX));
            l.push(format!("{}:", n));
        }
        match self.r.below(3) {
            0 => {
                l.push(format!(".db {}, {}, {}", self.num(255), self.num(255), self.num(255)));
                self.eep_bytes += 3;
            }
            1 => {
                l.push(format!(".dw {}", self.num(60000)));
                self.eep_bytes += 2;
            }
            _ => {
                l.push(".byte 2".to_string());
                l.push(".db \"ee\"".to_string());
                self.eep_bytes += 4;
            }
        }
        self.state_lines_in_another_memory(&mut l);
        l.push(".cseg".to_string());
        self.seg = 0;
        Node::Lines(l)
    }
    fn org_block(&mut self) -> Node {
        // only forward, with a gap that stays inside the smallest device used
        let target = self.words_upper + self.r.range(1, 24) as u32;
        self.words_upper = target;
        self.region += 1;
        Node::Lines(vec![format!(".org {}", if self.r.chance(1, 2) { format!("0x{:x}", target) } else { format!("{}", target) })])
    }
    fn device_line(&mut self) -> Node {
        // small-flash devices only when the program is still small
        let cands: Vec<usize> = (0..DEVICES.len()).filter(|i| DEVICES[*i].6 >= 64 || self.eep_bytes == 0).collect();
        let d = cands[self.r.usize(cands.len())];
        self.device = Some(d);
        Node::Lines(vec![format!(".device {}", DEVICES[d].0)])
    }
}

/// Generate one program over `pool`.
pub fn gen(r: &mut Rng, pool: &Pool, opts: &GenOpts) -> Program {
    let mut g = Gen {
        r,
        pool,
        opts,
        labels_planned: vec![],
        labels_emitted: vec![],
        equs: vec![],
        equs_pure: vec![],
        no_alias: false,
        sets: vec![],
        defs: vec![],
        defines: vec![],
        macros: vec![],
        once_macros: vec![],
        once_called: vec![],
        device: None,
        region: 0,
        seg: 0,
        msg_n: 0,
        words_upper: 0,
        ram_bytes: 0,
        eep_bytes: 0,
        uniq: 0,
    };
    let nblocks = g.r.range(opts.min_blocks as u64, opts.max_blocks as u64) as usize;
    // the first line is a placeholder that near-copies replace by a definition, so that every
    // other line keeps its number
    let mut nodes: Vec<Node> = vec![Node::Lines(vec![OPTIONS_LINE.to_string()])];
    // the device line comes early so that instruction choices know the device
    let with_device = g.r.below(8) < opts.device_eighths;
    let device_at = if with_device { g.r.usize(3.min(nblocks)) } else { usize::MAX };
    // labels that may be referenced from anywhere (value contexts): decided up front, emitted
    // as the blocks come; whatever is still missing at the end is emitted then.
    let nplanned = g.r.range(1, 4) as usize;
    g.labels_planned = pool.labels.iter().take(nplanned).cloned().collect();
    for b in 0..nblocks {
        if b == device_at {
            let d = g.device_line();
            nodes.push(d);
        }
        let pick = if opts.macro_heavy && g.r.chance(1, 2) { 18 + g.r.below(3) } else { g.r.below(24) };
        let n = match pick {
            0..=6 => g.code_block(),
            7 | 8 => g.data_block(),
            9 | 10 => g.equ_block(),
            11 => g.set_block(),
            12 => g.def_block(),
            13 | 14 => g.define_block(),
            15 | 16 | 17 => g.cond_block(1, true),
            18 => g.macro_def(),
            19 | 20 => g.macro_call(),
            21 => g.dseg_block(),
            22 => g.eseg_block(),
            _ => {
                if g.r.chance(1, 5) {
                    // directives that produce nothing
                    Node::Lines(vec![match g.r.below(3) {
                        0 => "#pragma AVRPART ADMIN PART_NAME ATmega48".to_string(),
                        1 => ".pragma AVRPART MEMORY PROG_FLASH 4096".to_string(),
                        _ => ".csegsize 10".to_string(),
                    }])
                } else if g.r.chance(1, 2) {
                    g.org_block()
                } else if opts.messages {
                    let k = if g.r.chance(1, 3) { "warning" } else { "message" };
                    Node::Lines(vec![g.msg(k)])
                } else {
                    g.code_block()
                }
            }
        };
        nodes.push(n);
    }
    // emit planned labels that never appeared
    let missing: Vec<String> = g.labels_planned.iter().filter(|l| !g.labels_emitted.iter().any(|(n, _)| n == *l)).cloned().collect();
    for m in missing {
        g.labels_emitted.push((m.clone(), g.region));
        nodes.push(Node::Lines(vec![format!("{}:", m), "    ret".to_string()]));
    }
    let mut intent = "ok".to_string();
    if let Some(kind) = &opts.fail {
        intent = kind.clone();
        let at = if nodes.is_empty() { 0 } else { g.r.usize(nodes.len() + 1) };
        let inj: Vec<Node> = match kind.as_str() {
            "undef-symbol" => vec![Node::Lines(vec![format!("    ldi r16, low({})", pool.equs[pool.equs.len() - 1].clone() + "_nowhere")])],
            "dup-label" => {
                let n = g.labels_emitted.first().map(|(n, _)| n.clone()).unwrap_or_else(|| "dupl".to_string());
                vec![Node::Lines(vec![format!("{}:", n), "    nop".to_string()]), Node::Lines(vec![format!("{}:", n.to_uppercase())])]
            }
            "error-directive" => vec![Node::Lines(vec![g.msg("error")])],
            // not in the device table: plainly unknown, or a real part whose name has one or
            // two table entries as prefixes (ATmega168P: ATmega16, ATmega168)
            "unknown-device" => {
                let names = ["ATnothing99", "ATmega168P", "ATmega88PA", "ATmega8515L", "ATtiny13V", "ATmega328", "ATmega1284P", "ATtiny2313V", "ATmega32U4", "atmega48", "ATmega16A", "AT90S2313A", "ATtiny24V"];
                vec![Node::Lines(vec![format!(".device {}", names[g.r.usize(names.len())])])]
            }
            "second-device" => vec![Node::Lines(vec![".device ATmega48".to_string()]), Node::Lines(vec![".device ATtiny13".to_string()])],
            "device-forbids-op" => vec![Node::Lines(vec![".device ATtiny13".to_string(), "    mul r1, r2".to_string()])],
            "flash-overflow" => vec![Node::Lines(vec![".device ATtiny13".to_string(), ".org 0x1ff".to_string(), "    nop".to_string(), "    nop".to_string()])],
            "ram-overflow" => vec![Node::Lines(vec![".device ATtiny13".to_string(), ".dseg".to_string(), ".byte 65".to_string(), ".cseg".to_string()])],
            "eeprom-overflow" => vec![Node::Lines(vec![".device ATtiny13".to_string(), ".eseg".to_string(), ".byte 60".to_string(), ".dw 1, 2, 3".to_string(), ".cseg".to_string()])],
            "db-in-dseg" => vec![Node::Lines(vec![".dseg".to_string(), ".db 1, 2".to_string(), ".cseg".to_string()])],
            "instr-in-dseg" => vec![Node::Lines(vec![".dseg".to_string(), "    nop".to_string(), ".cseg".to_string()])],
            "if-undefined" => vec![Node::Cond { head: format!(".if {}_nowhere > 1", pool.equs[0]), then: vec![Node::Lines(vec!["    nop".to_string()])], els: None }],
            "undef-macro" => vec![Node::Lines(vec![format!("    {}_nowhere r16", pool.macros[0])])],
            "parse-error" => vec![Node::Lines(vec!["    %% this is not assembler %%".to_string()])],
            "branch-range" => {
                let n = format!("far{}_{}", pool.tag, g.r.below(100));
                vec![Node::Lines(vec![format!("    breq {}", n), ".org pc + 200".to_string()]), Node::Lines(vec![format!("{}:", n), "    nop".to_string()])]
            }
            "byte-range" => vec![Node::Lines(vec!["    ldi r16, 300".to_string()])],
            "undef-def" => vec![Node::Lines(vec![format!("    ldi {}, 1", pool.defs[pool.defs.len() - 1].clone() + "_nowhere")])],
            // two macros that differ only in case and a call in a third: an error today
            // ("call undefined macro"), a hash-order lottery in a tree that looks names up
            // case-insensitively by scanning the table
            "macro-case-only" => vec![
                Node::Macro(vec![format!(".macro W{}t", pool.tag), "    ldi r16, 1".to_string(), ".endm".to_string()]),
                Node::Macro(vec![format!(".macro w{}T", pool.tag), "    ldi r17, 2".to_string(), "    nop".to_string(), ".endm".to_string()]),
                Node::Lines(vec![format!("    w{}t", pool.tag)]),
            ],
            // an identifier that is missing at the bottom of a chain of .equ: evaluation fails
            // several levels deep and unwinds with `?`
            "undef-deep" => {
                let n = 5 + g.r.below(4);
                let mut l: Vec<String> = (0..n).map(|i| format!(".equ q{}_{} = q{}_{} + 1", pool.tag, i, pool.tag, i + 1)).collect();
                l.push(format!(".equ q{}_{} = q{}_bottomless * 2", pool.tag, n, pool.tag));
                l.push(format!("    ldi r16, low(q{}_0)", pool.tag));
                vec![Node::Lines(l)]
            }
            // the failure happens while a macro body is expanded (pass 0)
            // `pc` exists only while pass 2 runs: a condition that is evaluated while parsing (or
            // while a macro is expanded) cannot see it - unless an earlier build left it behind
            "pc-at-parse-time" => {
                if g.r.chance(1, 2) {
                    vec![Node::Cond { head: format!(".if pc > {}", g.r.below(40)), then: vec![Node::Lines(vec!["    nop".to_string(), "    nop".to_string()])], els: Some((".else".to_string(), vec![Node::Lines(vec!["    ret".to_string()])])) }]
                } else {
                    vec![
                        Node::Macro(vec![format!(".macro p{}c", pool.tag), format!(".if pc > {}", g.r.below(40)), "    nop".to_string(), ".else".to_string(), "    ret".to_string(), "    ret".to_string(), ".endif".to_string(), ".endm".to_string()]),
                        Node::Lines(vec![format!("    p{}c", pool.tag)]),
                    ]
                }
            }
            // an .include inside a macro body is looked up when the macro is expanded, with no
            // search directories at all: it fails - unless an earlier build left its directories
            // behind (the names are those the include trees of the corpora use)
            "include-in-macro" => {
                let name = ["f1.inc", "f2.inc", "f1.asm", "f2.h", "c1.inc", "c2.inc", "f3.inc"][g.r.usize(7)];
                vec![
                    Node::Macro(vec![format!(".macro i{}m", pool.tag), "    nop".to_string(), format!(".include \"{}\"", name), ".endm".to_string()]),
                    Node::Lines(vec![format!("    i{}m", pool.tag)]),
                ]
            }
            // the same label twice in one macro body: the error names the label as the user wrote it
            "label-twice-in-macro" => vec![
                Node::Macro(vec![format!(".macro d{}l", pool.tag), format!("dl{}:", pool.tag), "    nop".to_string(), format!("dl{}:", pool.tag), "    ret".to_string(), ".endm".to_string()]),
                Node::Lines(vec![format!("    d{}l", pool.tag)]),
            ],
            // directives the grammar knows and the builder refuses today (listing control)
            "unsupported-directive" => vec![Node::Lines(vec![[".nolist", ".list", ".listmac"][g.r.usize(3)].to_string()])],
            // one error in the code and one in the EEPROM contents: the one written first is
            // the one reported
            "errors-in-two-memories" => {
                let a = Node::Lines(vec![format!("    ldi r16, {}", 300 + g.r.below(100))]);
                let b = Node::Lines(vec![".eseg".to_string(), format!(".db {}", 300 + g.r.below(100)), ".cseg".to_string()]);
                if g.r.chance(1, 2) {
                    vec![a, b]
                } else {
                    vec![b, a]
                }
            }
            // avra's `_%` (number of the expansion) in a label of a macro body, referred to from
            // outside: refused today; a counter behind it must not outlive the build
            "avra-macro-local-label" => {
                if g.r.chance(1, 2) {
                    // (the first expansion is number 0 in some assemblers, 1 in others)
                    vec![
                        Node::Macro(vec![format!(".macro wq{}", pool.tag), format!("wl{}_%:", pool.tag), "    dec r16".to_string(), format!("    brne wl{}_%", pool.tag), ".endm".to_string()]),
                        Node::Lines(vec![format!("    wq{}", pool.tag), format!("    rjmp wl{}_{}", pool.tag, g.r.below(2))]),
                    ]
                } else {
                    // the generated name shows in an error: the label twice in one body
                    vec![
                        Node::Macro(vec![format!(".macro wq{}", pool.tag), format!("wl{}_%:", pool.tag), "    dec r16".to_string(), format!("wl{}_%:", pool.tag), format!("    brne wl{}_%", pool.tag), ".endm".to_string()]),
                        Node::Lines(vec![format!("    wq{}", pool.tag)]),
                    ]
                }
            }
            // two macros that are never called and hold a line nobody can parse: fine today
            // (bodies are only looked at when expanded); a tree that validates them must name
            // the same one every time
            "broken-unused-macros" => vec![
                Node::Macro(vec![format!(".macro bad{}a", pool.tag), " %% not assembler %%".to_string(), ".endm".to_string()]),
                Node::Macro(vec![format!(".macro bad{}b", pool.tag), " 1: jmp 1b".to_string(), ".endm".to_string()]),
                Node::Macro(vec![format!(".macro bad{}c", pool.tag), "    ldi r16,, 3".to_string(), ".endm".to_string()]),
            ],
            "panics-today" => vec![Node::Lines(vec![match g.r.below(3) {
                0 => format!("    ldi r{}, 1", 32 + g.r.below(68)),
                1 => format!(".equ big{} = 9999999999999999999{}", pool.tag, g.r.below(100000)),
                _ => format!("    ldi r{}", 16 + g.r.below(16)),
            }])],
            // the failure happens two or three macro bodies deep: whatever a tree keeps while a
            // body is being expanded (a depth counter, a stack of names) is left behind by `?`
            "error-in-nested-macro" => vec![
                Node::Macro(vec![format!(".macro n{}in", pool.tag), "    nop".to_string(), format!(".error \"{}deep in macros\"", opts.msg_tag), ".endm".to_string()]),
                Node::Macro(vec![format!(".macro n{}mid", pool.tag), "    nop".to_string(), format!("    n{}in", pool.tag), ".endm".to_string()]),
                Node::Macro(vec![format!(".macro n{}out", pool.tag), format!("    n{}mid", pool.tag), "    nop".to_string(), ".endm".to_string()]),
                Node::Lines(vec![format!("    n{}out", pool.tag)]),
            ],
            // AVRASM2's predefined build-time symbols: unknown names today (the build fails the
            // same way every time); a tree that defines them from the wall clock builds something
            // else in every process - the two reference processes run at different clock origins
            "avrasm2-time-symbols" => vec![Node::Lines(vec![match g.r.below(4) {
                0 => "    ldi r16, __YEAR__".to_string(),
                1 => ".dw __YEAR__, __MONTH__, __DAY__".to_string(),
                2 => "    ldi r17, __HOUR__\n    ldi r18, __MINUTE__\n    ldi r19, __SECOND__".to_string(),
                _ => ".db __CENTURY__, __YEAR__".to_string(),
            }])],
            "undef-macro-in-macro" => vec![
                Node::Macro(vec![format!(".macro u{}mid", pool.tag), "    nop".to_string(), format!("    u{}nowhere r16", pool.tag), ".endm".to_string()]),
                Node::Macro(vec![format!(".macro u{}out", pool.tag), "    nop".to_string(), format!("    u{}mid", pool.tag), ".endm".to_string()]),
                Node::Lines(vec![format!("    u{}out", pool.tag)]),
            ],
            "error-in-macro" => vec![
                Node::Macro(vec![format!(".macro e{}rr", pool.tag), "    nop".to_string(), format!(".error \"{}in macro\"", opts.msg_tag), ".endm".to_string()]),
                Node::Lines(vec![format!("    e{}rr", pool.tag)]),
            ],
            _ => vec![],
        };
        // ".org pc + 200" is not constant at parse time in this assembler; use a literal instead
        let inj: Vec<Node> = inj
            .into_iter()
            .map(|n| match n {
                Node::Lines(l) => Node::Lines(l.into_iter().map(|s| if s == ".org pc + 200" { format!(".org {}", g.words_upper + 400) } else { s }).collect()),
                o => o,
            })
            .collect();
        let mut at = at.min(nodes.len());
        // device-dependent failures need their .device to be the first one
        if matches!(kind.as_str(), "device-forbids-op" | "flash-overflow" | "ram-overflow" | "eeprom-overflow" | "second-device") {
            nodes.retain(|n| !matches!(n, Node::Lines(l) if l.len() == 1 && l[0].starts_with(".device ")));
            at = at.min(nodes.len());
            if kind == "flash-overflow" || kind == "branch-range" {
                at = nodes.len();
            }
        }
        if kind == "branch-range" {
            at = nodes.len();
        }
        for (i, n) in inj.into_iter().enumerate() {
            nodes.insert((at + i).min(nodes.len()), n);
        }
    }
    Program { nodes, intent }
}

/// A family: programs over one pool; about half are meant to fail in some way.
pub fn family(r: &mut Rng, n: usize, msg_prefix: &str) -> Vec<Program> {
    let pool = Pool::new(r);
    let mut v = vec![];
    for i in 0..n {
        let mut o = GenOpts::default();
        o.msg_tag = format!("{}{}m", msg_prefix, i);
        o.min_blocks = 4;
        o.max_blocks = 16;
        if r.chance(9, 20) {
            o.fail = Some(FAIL_KINDS[r.usize(FAIL_KINDS.len())].to_string());
            // now and then an input on which today's code panics (a register number out of range,
            // a number above 64 bits, a missing operand): whatever the build does with it alone,
            // it does in any history and next to any other build
            if r.chance(1, 10) {
                o.fail = Some("panics-today".to_string());
            }
        }
        o.macro_heavy = r.chance(1, 6);
        v.push(gen(r, &pool, &o));
    }
    // near-copies: a member with exactly one fact changed (a define present or absent, the value
    // of an .equ, the device, a register alias). Whatever one build remembers about the other -
    // an expansion, an evaluated expression, a selected device - now has the wrong meaning.
    let nvar = r.range(1, 2) as usize;
    for _ in 0..nvar {
        if v.is_empty() {
            break;
        }
        let base = v[r.usize(v.len())].clone();
        if let Some(p) = variant_of(r, &base) {
            v.push(p);
        }
    }
    v
}

fn map_lines(nodes: &[Node], f: &mut dyn FnMut(&str) -> Option<Option<String>>) -> Vec<Node> {
    // f: None = keep, Some(None) = drop the line, Some(Some(x)) = replace it
    let mut edit = |ls: &Vec<String>| -> Vec<String> {
        let mut out = vec![];
        for l in ls {
            match f(l) {
                None => out.push(l.clone()),
                Some(None) => {}
                Some(Some(x)) => out.push(x),
            }
        }
        out
    };
    let mut res = vec![];
    for n in nodes {
        res.push(match n {
            Node::Lines(l) => Node::Lines(edit(l)),
            Node::Macro(l) => Node::Macro(l.clone()),
            Node::Cond { head, then, els } => Node::Cond { head: head.clone(), then: then.clone(), els: els.clone() },
        });
    }
    res
}

/// One fact changed in a copy of `base` (top-level plain lines only, so the structure stays).
pub fn variant_of(r: &mut Rng, base: &Program) -> Option<Program> {
    let lines = base.lines();
    let has = |p: &str| lines.iter().any(|l| l.trim_start().starts_with(p));
    let mut kinds: Vec<&str> = vec!["add-define"];
    if has("#define ") || has(".define ") {
        kinds.push("drop-define");
    }
    if has(".equ ") {
        kinds.push("equ-value");
        kinds.push("equ-value");
    }
    if has(".device ") {
        kinds.push("device");
    } else {
        kinds.push("add-device");
    }
    if has(".def ") {
        kinds.push("def-register");
    }
    if base.nodes.iter().any(|n| matches!(n, Node::Macro(ls) if ls.iter().any(|l| l.trim_start().starts_with(".if")))) {
        kinds.push("macro-fact");
        kinds.push("macro-fact");
        kinds.push("macro-fact");
    }
    let kind = kinds[r.usize(kinds.len())];
    let mut done = false;
    let pick = r.below(4);
    let mut seen = 0u64;
    let newval = r.below(250);
    let newreg = r.range(16, 31);
    let newdev = DEVICES[r.usize(DEVICES.len())].0;
    let mut nodes = match kind {
        "drop-define" => map_lines(&base.nodes, &mut |l| {
            let t = l.trim_start();
            if !done && (t.starts_with("#define ") || t.starts_with(".define ")) {
                seen += 1;
                if seen > pick % 2 {
                    done = true;
                    return Some(Some("; (define removed)".to_string()));
                }
            }
            None
        }),
        "equ-value" => map_lines(&base.nodes, &mut |l| {
            let t = l.trim_start();
            if !done && t.starts_with(".equ ") {
                seen += 1;
                if seen > pick % 3 {
                    if let Some(eq) = l.find('=') {
                        done = true;
                        return Some(Some(format!("{}= {}", &l[..eq], newval)));
                    }
                }
            }
            None
        }),
        "device" => map_lines(&base.nodes, &mut |l| {
            if !done && l.trim_start().starts_with(".device ") {
                done = true;
                return Some(Some(if pick == 0 { "; (device removed)".to_string() } else { format!(".device {}", newdev) }));
            }
            None
        }),
        "def-register" => map_lines(&base.nodes, &mut |l| {
            if !done && l.trim_start().starts_with(".def ") {
                if let Some(eq) = l.find('=') {
                    done = true;
                    return Some(Some(format!("{}= r{}", &l[..eq], newreg)));
                }
            }
            None
        }),
        _ => base.nodes.clone(),
    };
    if kind == "add-define" {
        // a define that some conditional of the program tests, if there is one
        let tested: Vec<String> = lines.iter().filter_map(|l| {
            let t = l.trim_start();
            for p in [".ifdef ", ".ifndef ", "#ifdef "] {
                if let Some(rest) = t.strip_prefix(p) {
                    return rest.split_whitespace().next().map(|s| s.to_string());
                }
            }
            None
        }).collect();
        if tested.is_empty() {
            return None;
        }
        let name = tested[r.usize(tested.len())].clone();
        nodes = map_lines(&nodes, &mut |l| {
            if !done && l == OPTIONS_LINE {
                done = true;
                return Some(Some(format!("#define {}", name)));
            }
            None
        });
    }
    if kind == "add-device" {
        nodes = map_lines(&nodes, &mut |l| {
            if !done && l == OPTIONS_LINE {
                done = true;
                return Some(Some(format!(".device {}", newdev)));
            }
            None
        });
    }
    if kind == "macro-fact" {
        // change exactly the fact that a conditional inside a macro body tests
        let mut facts: Vec<(bool, String)> = vec![];
        for n in &base.nodes {
            if let Node::Macro(ls) = n {
                for l in ls {
                    let t = l.trim_start();
                    if let Some(rest) = t.strip_prefix(".ifdef ") {
                        facts.push((true, rest.trim().to_string()));
                    } else if let Some(rest) = t.strip_prefix(".if ") {
                        if let Some(name) = rest.split_whitespace().next() {
                            facts.push((false, name.to_string()));
                        }
                    }
                }
            }
        }
        if facts.is_empty() {
            return None;
        }
        let (is_define, name) = facts[r.usize(facts.len())].clone();
        if is_define {
            let defined = lines.iter().any(|l| {
                let t = l.trim_start();
                (t.starts_with("#define ") || t.starts_with(".define ")) && t.split_whitespace().nth(1) == Some(name.as_str())
            });
            nodes = map_lines(&nodes, &mut |l| {
                let t = l.trim_start();
                if defined {
                    if (t.starts_with("#define ") || t.starts_with(".define ")) && t.split_whitespace().nth(1) == Some(name.as_str()) {
                        done = true;
                        return Some(Some("; (define removed)".to_string()));
                    }
                } else if !done && l == OPTIONS_LINE {
                    done = true;
                    return Some(Some(format!("#define {}", name)));
                }
                None
            });
        } else {
            let flip = if r.chance(1, 2) { 0 } else { 251 };
            nodes = map_lines(&nodes, &mut |l| {
                let t = l.trim_start();
                if !done && t.starts_with(".equ ") && t[5..].trim_start().to_lowercase().starts_with(&name.to_lowercase()) {
                    if let Some(eq) = l.find('=') {
                        done = true;
                        return Some(Some(format!("{}= {}", &l[..eq], flip)));
                    }
                }
                None
            });
        }
    }
    if !done {
        return None;
    }
    Some(Program { nodes, intent: format!("variant:{}:{}", kind, base.intent) })
}
